"""Checks that are not driven by posmc: C11 C12 (tablemc), C19 (bookmc), C20 (timemc), C13 C14 (evalmc),
C05 C08 C09 (searchmc), C06 (schedmc), C10 (sessionmc)."""
import json, os, shutil, subprocess, sys, time
import vbuild, driver
from driver import HarnessError, VERIF, TMP

MC = "model_checking"


def _deadline(tier):
    return 200 if tier == "quick" else 2400


def _jobs(exe, tier, variants, extra=()):
    return [dict(argv=[exe, "--tier", tier, "--deadline", str(_deadline(tier))] + list(extra) + v,
                 timeout=_deadline(tier) * 2 + 300) for v in variants]


# ------------------------------------------------------------------------------------------ C11 / C12
def run_table(prop, tier):
    t0 = time.time()
    exe = vbuild.harness_build("tablemc", ["tablemc.cpp"], "rel")
    res = driver.run_jobs(prop, tier, [dict(argv=[exe, "--prop", prop], timeout=1800)])
    merged = driver.merge(res)
    if prop == "C11":
        rule = "every (square, occupancy) pair and every table entry compared with coordinate-geometry definitions"
        assumptions = ["the geometric definitions in src/tablemc.cpp (ray walk to first blocker inclusive) are the oracle"]
        guards = [("_outcomes", 10)]
    else:
        rule = ("every legal KPK position (both pawn colours, both sides to move): engine bitbase probe after normalize AND the "
                "evaluator's verdict vs a retrograde least-fix-point built from refchess moves (KQK and KRK solved first, promotions lead into them)")
        assumptions = ["refchess move generation; under-promotion to B/N and capture of the pawn are draws",
                       "black-pawn positions are the colour mirrors of the white-pawn positions (rules are colour symmetric)"]
        guards = [("solver_wins_P", 100000), ("_outcomes", 20)]
        n = merged["counters"].get("solver_legal_P", 0)
        if n != 331352:
            raise HarnessError("KPK solver enumerated %d legal white-pawn positions, expected 331352" % n)
    return driver.finish(prop, tier, MC, merged, t0, rule=rule, assumptions=assumptions, guards=guards,
                         replay_fn=None, technique="exhaustive enumeration of the complete finite domain against an independent definition")


# ------------------------------------------------------------------------------------------ C20
def run_time(prop, tier):
    t0 = time.time()
    exe = vbuild.harness_build("timemc", ["timemc.cpp"], "rel")
    n = 32
    jobs = _jobs(exe, tier, [["--shard", "%d/%d" % (i, n)] for i in range(n)])
    import searchchecks
    sexe = searchchecks.searchmc_exe("rel")
    for i in range(8):
        jobs.append(dict(argv=[sexe, "--prop", "C20", "--tier", tier, "--list", "clockseam", "--inproc", "--shard", "%d/8" % i,
                               "--seed", str(driver.seed()), "--deadline", str(_deadline(tier))], timeout=_deadline(tier) * 2 + 300))
    merged = driver.merge(driver.run_jobs(prop, tier, jobs))
    return driver.finish(prop, tier, MC, merged, t0,
                         rule="every lattice point (time, increment, movestogo, ply, colour): 0 <= t, 10t <= 7T, and t non-decreasing along consecutive lattice times; compiled -Ofast like the shipped build; "
                              "search seam: virtual thinking time <= 0.7 T + 4 clock steps",
                         assumptions=["the lattice stated in coverage.subspaces[].bound is what is decided; 10^16 tuples exist",
                                      "the opponent's clock is set to different values so that reading the wrong clock is visible"],
                         guards=[("_outcomes", 5)], technique="exhaustive enumeration of a stated lattice of clock states on the real function")


# ------------------------------------------------------------------------------------------ C19
def run_book(prop, tier):
    t0 = time.time()
    exe = vbuild.harness_build("bookmc", ["bookmc.cpp"], "rel", extra_flags=["-fno-access-control"])
    tmp = os.path.join(TMP, "books-%d" % os.getpid())
    os.makedirs(tmp, exist_ok=True)
    try:
        n = 14
        variants = [["--mode", "decode"]] + [["--mode", "files", "--shard", "%d/%d" % (i, 4)] for i in range(4)] + \
                   [["--mode", "sample", "--shard", "%d/%d" % (i, n)] for i in range(n)]
        jobs = _jobs(exe, tier, variants, extra=["--tmp", tmp])
        merged = driver.merge(driver.run_jobs(prop, tier, jobs))
    finally:
        shutil.rmtree(tmp, ignore_errors=True)
    return driver.finish(prop, tier, MC, merged, t0,
                         rule="files: loaded table == complete 16-byte records of the file (direct table view + contains()); best = maximal weight; "
                              "decode: every move code in 4 positions; sample: never weight-0 / foreign move (exact, every seed), frequency within 5 sigma+2 of weight share over the enumerated seed range",
                         assumptions=["move codes with promotion field 5..7 are outside the Polyglot format and skipped", "all-zero weight vectors skipped",
                                      "frequency oracle is a tolerance test over an enumerated (not drawn) seed range"],
                         guards=[("direct_table_comparisons", 100), ("castling_decodes", 8), ("_outcomes", 20)],
                         technique="exhaustive enumeration of book files / move codes / weight vectors x seeds on the real reader")


# ------------------------------------------------------------------------------------------ C13 / C14
def _canon_sigs(sigs):
    seen, out = set(), []
    for s in sigs:
        head = s.split(";")[0]
        w = "".join(sorted(c for c in head if c.isupper() and c != "K"))
        b = "".join(sorted(c.upper() for c in head if c.islower() and c != "k"))
        key = tuple(sorted([w, b])) + (s[len(head):],)
        if key not in seen:
            seen.add(key)
            out.append(s)
    return out


def eval_spaces(prop, tier):
    import plans
    q = tier == "quick"
    jobs = []

    def sig(spec, n):
        for i in range(n):
            jobs.append(["sig|%s;shard=%d/%d" % (spec, i, n)])

    men3 = ["KQk", "KRk", "KPk"]   # KBk / KNk are draws by material
    special4 = ["KPPk", "KBPk", "KNBk", "KQkr", "KQkp", "KRkp", "KRkb", "KRkn", "KNNk"]
    general4 = ["KQkq", "KRkr", "KPkp", "KBkn"]
    if prop == "C13":
        for s in men3:
            sig(s, 2)
        if q:
            for s in ["KPPk", "KBPk", "KQkp", "KRkp"]:
                sig(s + ";ep=none", 16)
            for s in ["KNBk", "KQkr", "KRkb", "KRkn", "KPkp"]:
                sig(s + ";files=6", 8)
            sig("KBPkb;files=4;ep=none", 16)
            sig("KBPPkb;files=3;ep=none", 16)
            sig("KBPkbp;files=3;ep=none;stm=w", 16)   # material is colour-symmetric: black-to-move positions are the mirrors
            sig("KQkrp;files=4;ep=none", 16)
            sig("KNNkp;files=4;ep=none", 16)
            sig("Ke1Rh1Pke8ra8p;files=8;ep=none", 8)
        else:
            for s in _canon_sigs(plans.MEN4):
                sig(s, 16)
            for s in ["KRNkr", "KRBkr", "KNNkp", "KBPkb", "KQkrp", "KBBkn", "KBNkb", "KBPPk"]:
                sig(s + ";files=5;ep=none", 32)
            for s in ["KBPPkb", "KQkrpp", "KPPPk", "KBPPPk", "KBPkbp", "KBPPkbp"]:
                sig(s + ";files=3;ep=none", 32)
            sig("Ke1Ra1Rh1Pke8ra8rh8p;ep=none", 16)
        seeds = plans.SEEDS
        for n in seeds:
            jobs.append(["bfs|%s|%d" % (seeds[n], (2 if n != "startpos" else 3) if q else 3)])
    else:
        L = 4 if q else 5
        n = 16
        for i in range(n):
            jobs.append(["purity|%d|%d/%d" % (L, i, n)])
        # material dispatch: one position per material class (bare kings, every specialised endgame, general) + clear
        for i in range(n):
            jobs.append(["matpurity|%d|%d/%d" % (3 if q else 4, i, n)])
        for s in men3 + (["KPPk", "KQkp"] if q else special4 + general4):
            sig(s + ";ep=none", 8)
        sig("KQQQk;files=5", 8)
        # same pawn structure x every placement of the other pieces (pawns first = outer loops)
        for s in (["PpKkn;files=4;ep=none", "PPKkn;files=4;ep=none"] if q else
                  ["PpKkn;files=6;ep=none", "PPKkn;files=6;ep=none", "PpKNk;files=6;ep=none", "ppkKN;files=6;ep=none", "PPpKkn;files=4;ep=none", "PpKkb;files=6;ep=none", "PpKkr;files=6;ep=none"]):
            for i in range(8):
                jobs.append(["pawngroup|%s;shard=%d/8" % (s, i)])
        # kings fixed in far corners, pawns outermost: cached vs always-missed pawn term
        for s in (["PPnKa1kh8", "ppNKa1kh8", "PpnKa1kh8", "PPrKa1kh8"] if q else
                  ["PPnKa1kh8", "ppNKa1kh8", "PpnKa1kh8", "PpNKa1kh8", "PPrKa1kh8", "PPbKa1kh8", "PPqKa1kh8", "ppRKa1kh8", "ppBKa1kh8", "PPPnKa1kh8;files=5", "PPnnKa1kh8;files=5"]):
            for i in range(16):
                jobs.append(["pawnpure|%s;ep=none;stm=w;shard=%d/16" % (s, i)])
        # extreme material (bare king v eight/nine queens and two rooks, both colours): bounds
        extreme = ["7k/8/8/8/8/RRK5/QQQQ4/QQQQ4 w - - 0 1", "7k/8/8/8/8/RRK5/QQQQ4/QQQQQ3 w - - 0 1",
                   "qqqq4/qqqq4/rrk5/8/8/8/8/7K b - - 0 1", "qqqqq3/qqqq4/rrk5/8/8/8/8/7K b - - 0 1",
                   "7k/8/8/8/8/RRK5/QQQQ4/QQQQ4 b - - 0 1", "3qk3/8/8/8/8/RRK5/QQQQ4/QQQQ4 w - - 0 1"]
        for f in extreme:
            jobs.append(["bfs|%s|%d" % (f, 1 if q else 2)])
        seeds = plans.SEEDS
        for n in seeds:
            jobs.append(["bfs|%s|%d" % (seeds[n], 2 if q else 3)])
    return jobs


def run_eval(prop, tier):
    t0 = time.time()
    exe = vbuild.harness_build("evalmc", ["evalmc.cpp"], "rel")
    jobs = []
    for spaces in eval_spaces(prop, tier):
        argv = [exe, "--prop", prop, "--deadline", str(_deadline(tier))]
        for s in spaces:
            argv += ["--space", s]
        jobs.append(dict(argv=argv, timeout=_deadline(tier) * 2 + 300))
    merged = driver.merge(driver.run_jobs(prop, tier, jobs))
    if prop == "C13":
        rule = "every position of the enumerated spaces with sufficient material: score(p) == score(colour mirror of p) on one long-lived evaluator"
        assumptions = ["mirror = ranks flipped, colours, castling rights, ep square and side to move swapped (refchess::mirror)",
                       "insufficient material (bare kings / single minor) skipped as the property says"]
        guards = [("pairs", 100000), ("_outcomes", 50)]
    else:
        rule = ("purity: every operation sequence over {eval of 8 positions constructed per process to collide in the pawn cache, clear} "
                "and every sequence over {eval of one position per material class of the evaluator's dispatch (bare kings, each specialised endgame, general), clear}, "
                "compared with the same call on a fresh evaluator; bounds: |score| < win_in(MAX_DEPTH) for every evaluation of the listed spaces")
        assumptions = ["the colliding alphabet is found by exhaustive search over pawn structures against this process's random keys",
                       "a fresh PositionScorer is the reference for purity"]
        guards = [("structures_searched", 1000), ("evaluations", 100000), ("pawn_groups", 500), ("cleared_evaluations", 10000), ("order_pairs", 10000), ("alphabets_with_low32_pair", 1), ("material_sequence_evaluations", 30000), ("material_alphabet_specialised_endgames", 16 * 15)]
    return driver.finish(prop, tier, MC, merged, t0, rule=rule, assumptions=assumptions, guards=guards, replay_fn=replay_eval,
                         technique="exhaustive enumeration of positions / operation sequences on the real evaluator with a differential oracle")


def replay_eval(rec, verbose=False):
    d = rec["detail"]
    if "evaluated_before" in d:
        exe = vbuild.harness_build("evalmc", ["evalmc.cpp"], "rel")
        out = os.path.join(TMP, "replay-%d.json" % os.getpid())
        seq = ";".join(list(d["evaluated_before"]) + [d["fen"]])
        r = subprocess.run([exe, "--prop", "C13", "--space", "seq|" + seq, "--out", out], stdout=subprocess.PIPE, stderr=subprocess.STDOUT, text=True)
        if r.returncode != 0:
            raise HarnessError("replay failed: " + r.stdout)
        res = json.load(open(out))
        os.unlink(out)
        return any(k.startswith("C13:asymmetric") for k in res["violation_classes"])
    if "group_first" in d or "score_long_lived" in d or "score_forward_order" in d:
        return None   # replayed by re-running the group's (cheap) sub-space
    if "fen" not in d:
        return None   # purity sequences depend on per-process keys; replayed by re-running the (cheap) sub-space
    exe = vbuild.harness_build("evalmc", ["evalmc.cpp"], "rel")
    out = os.path.join(TMP, "replay-%d.json" % os.getpid())
    r = subprocess.run([exe, "--prop", rec["property"], "--space", "bfs|%s|0" % d["fen"], "--out", out], stdout=subprocess.PIPE, stderr=subprocess.STDOUT, text=True)
    if r.returncode != 0:
        raise HarnessError("replay failed: " + r.stdout)
    res = json.load(open(out))
    os.unlink(out)
    if verbose:
        print(json.dumps(res["violations"], indent=1))
    return rec["class"] in res["violation_classes"]


RUNNERS = {"C13": run_eval, "C14": run_eval, "C11": run_table, "C12": run_table, "C19": run_book, "C20": run_time}


def run(prop, tier):
    if prop in RUNNERS:
        return RUNNERS[prop](prop, tier)
    try:
        import searchchecks
        if prop in searchchecks.RUNNERS:
            return searchchecks.RUNNERS[prop](prop, tier)
    except ImportError:
        pass
    sys.stderr.write("no check for %s\n" % prop)
    return 2


def replay(rec, verbose=False):
    prop = rec["property"]
    if prop in ("C13", "C14"):
        r = replay_eval(rec, verbose)
        if r is not None:
            return r
    try:
        import searchchecks
        if prop in searchchecks.REPLAYERS:
            return searchchecks.REPLAYERS[prop](rec, verbose)
    except ImportError:
        pass
    # table-level checks are deterministic total enumerations: replay = re-run the whole (cheap) check,
    # with its evidence redirected so that a replay never rewrites /verif/evidence
    import tempfile
    old = (driver.EVID, driver.REPLAYS)
    tmp = tempfile.mkdtemp(prefix="replay-ev-")
    driver.EVID, driver.REPLAYS = tmp, os.path.join(tmp, "replays")
    try:
        rc = run(prop, rec.get("tier", "quick"))
    finally:
        driver.EVID, driver.REPLAYS = old
        shutil.rmtree(tmp, ignore_errors=True)
    return rc == 1


def setup():
    vbuild.harness_build("tablemc", ["tablemc.cpp"], "rel")
    vbuild.harness_build("timemc", ["timemc.cpp"], "rel")
    vbuild.harness_build("bookmc", ["bookmc.cpp"], "rel", extra_flags=["-fno-access-control"])
    vbuild.harness_build("evalmc", ["evalmc.cpp"], "rel")
    try:
        import searchchecks
        searchchecks.setup()
    except ImportError:
        pass
