"""Per-property check entry points."""
import json, os, subprocess, sys, time
import vbuild, driver, plans
from driver import HarnessError, VERIF

GOLDEN = os.path.join(VERIF, "data", "polyglot_random64.golden")

POSMC = {
    # prop: (rule text, assumptions, guards)
    "C01": ("every state: engine generate_moves() list vs refchess legal list (multiset equality); outcome = number of legal moves",
            ["refchess (mailbox rules model, perft-validated at start of every run) is the oracle",
             "positions are one-ply retro-legal as defined in the property's quantifier"],
            [("cov_ep_moves", 100), ("cov_castle_moves", 100), ("cov_promotion_moves", 100), ("cov_double_check", 10), ("_outcomes", 20)]),
    "C02": ("every edge (state x legal move): engine FEN after parse_uci+do_move vs FEN of refchess::make (all six fields)",
            ["refchess::make implements FIDE art. 3 + PGN FEN conventions (ep target after every double push)",
             "half-move clocks kept <= 150"],
            [("cov_ep_moves", 100), ("cov_castle_moves", 100), ("cov_promotion_moves", 100), ("edges", 10000)]),
    "C03": ("every edge and null move: snapshot of all public observables before do/undo == after; nested trees compare at every unwind",
            ["observables = FEN, keys, board, piece sets and counts, bitboards, rights, ep, clocks, repetition/draw answers, static eval (one long-lived evaluator), sorted move list"],
            [("cov_ep_moves", 50), ("cov_castle_moves", 50), ("cov_promotion_moves", 50), ("null_edges", 100), ("edges", 10000)]),
    "C04": ("every state/edge: incremental key == key of Position(fen) (also pawn key, also after null move and after unmake); identity->key and pawn-placement->pawn-key are functions; "
            "key->identity injective (collisions re-tested under two re-randomisations of the tables)",
            ["keys are per-process random; the check is relative to one process", "64-bit accidental collisions are filtered by re-randomised re-test"],
            [("edges", 10000), ("transposition_arrivals", 1000), ("variant_groups", 1000)]),
    "C07": ("static predicates on every state; history predicates (occurred before / threefold / 50-move / insufficient material / is_draw) on every prefix of every game of the arenas",
            ["identity of positions = placement+side+rights+ep square as the property states", "null moves are not part of games"],
            [("prefixes_repeated", 100), ("prefixes_threefold", 10), ("prefixes_rule50", 10), ("prefixes_insufficient", 10), ("cov_in_check", 100), ("long_history_prefixes", 1000)]),
    "C15": ("every edge: move_is_capture / move_is_quiet / move_gives_check vs what refchess::make actually does",
            ["refchess oracle"],
            [("cov_ep_moves", 100), ("cov_castle_moves", 100), ("cov_promotion_moves", 100), ("checking_edges", 1000)]),
    "C16": ("every engine-generated move: parse_uci(uci(m)) == m and text == oracle text; every state (loaded and reached by play): Position(fen()) identical; all packed encodings",
            ["refchess::uci is the expected text (castling as king two-square move, promotion letter lower case)"],
            [("cov_castle_moves", 100), ("cov_promotion_moves", 100), ("edges", 10000)]),
    "C17": ("every engine-generated move: parse_san(san(m)) == m; SAN strings of one position pairwise distinct",
            ["only the engine's own printer/parser pair is compared (the property is a round trip)"],
            [("cov_castle_moves", 10), ("cov_promotion_moves", 100), ("disambiguated", 100), ("doubly_disambiguated", 10), ("edges", 10000)]),
    "C18": ("every state: PolyglotBook::hash vs re-implementation of the published format over a flat Random64[781] in published order",
            ["data/polyglot_random64.golden: entries 0-8 and 768-780 and the nine published key vectors independently known; the other constants were frozen from the pinned tree (see DESIGN C18)"],
            [("ep_with_capturer", 100), ("ep_without_capturer", 100), ("_outcomes", 40)]),
}


def posmc_exe():
    return vbuild.harness_build("posmc", ["posmc.cpp"], "rel")


def posmc_selftest(exe):
    r = subprocess.run([exe, "--space", "selftest"], stdout=subprocess.PIPE, stderr=subprocess.STDOUT, text=True)
    if r.returncode != 0:
        raise HarnessError("refchess self-test failed: " + r.stdout)
    r = subprocess.run([exe, "--space", "validate|" + os.path.join(VERIF, "data", "seeds.fen")],
                       stdout=subprocess.PIPE, stderr=subprocess.STDOUT, text=True)
    if r.returncode != 0:
        raise HarnessError("seed validation failed: " + r.stdout)


def deadline(tier):
    return 200 if tier == "quick" else 2400


def run_posmc(prop, tier):
    t0 = time.time()
    exe = posmc_exe()
    posmc_selftest(exe)
    rule, assumptions, guards = POSMC[prop]
    jobs = []
    for spaces in plans.posmc_spaces(prop, tier):
        argv = [exe, "--prop", prop, "--deadline", str(deadline(tier))]
        if prop == "C18":
            argv += ["--golden", GOLDEN]
        for s in spaces:
            argv += ["--space", s]
        jobs.append(dict(argv=argv, timeout=deadline(tier) * 2 + 120))
    if prop in ("C02", "C03"):
        # the text-protocol seam: in-process UCI sessions on the -Ofast hooked build
        import searchchecks
        sexe = searchchecks.searchmc_exe("rel")
        lst = "ucipath" if prop == "C02" else "ucikeep"
        for i in range(16):
            jobs.append(dict(argv=[sexe, "--prop", prop, "--tier", tier, "--list", lst, "--inproc", "--shard", "%d/16" % i,
                                   "--seeds", os.path.join(VERIF, "data", "seeds.fen"), "--seed", str(driver.seed()),
                                   "--deadline", str(deadline(tier))], timeout=deadline(tier) * 2 + 120))
    results = driver.run_jobs(prop, tier, jobs)
    merged = driver.merge(results)
    return driver.finish(prop, tier, "model_checking", merged, t0, rule=rule, assumptions=assumptions,
                         replay_fn=replay_posmc, guards=guards,
                         technique="explicit-state enumeration of positions/moves on the real code vs reference model")


def replay_posmc(rec, verbose=False):
    """Re-run exactly one recorded violation in a fresh process; True if the same class shows up again."""
    prop = rec["property"]
    exe = posmc_exe()
    d = rec["detail"]
    if "crash_argv" in d:
        return replay_crash(d)
    if "tree_root" in d:
        space = "treeline|%s|%s|%d" % (d["tree_root"], d.get("tree_moves", ""), int(d.get("remaining_depth", 1)))
    elif "start_fen" in d:
        start = d["start_fen"]
        if len(start.split()) == 4:
            start += " 0 1"
        # games replays need the true start clocks: they are in the subspace fen; stored in detail as 'start_fen' only
        space = "line|%s|%s" % (d.get("start_fen_full", start), d.get("moves", ""))
    elif "fen" in d:
        space = "bfs|%s|0" % d["fen"]
    elif "position_a" in d:
        return None  # collision pairs are re-tested inside the harness
    else:
        return None
    out = os.path.join(driver.TMP, "replay-%d.json" % os.getpid())
    os.makedirs(driver.TMP, exist_ok=True)
    argv = [exe, "--prop", prop, "--space", space, "--out", out]
    if prop == "C18":
        argv += ["--golden", GOLDEN]
    r = subprocess.run(argv, stdout=subprocess.PIPE, stderr=subprocess.STDOUT, text=True)
    if r.returncode != 0:
        raise HarnessError("replay failed to run: " + r.stdout)
    res = json.load(open(out))
    os.unlink(out)
    if verbose:
        print(json.dumps(res["violation_classes"]), json.dumps(res["violations"][:3], indent=1))
    cls = rec["class"]
    if cls.startswith("C04:same_position") or cls.startswith("C04:pawn_key_not"):
        return None if not res["violation_classes"] else True   # map-dependent classes: single-state replay is only advisory
    if cls.startswith("C03:nested"):
        return any(k.startswith("C03:nested") for k in res["violation_classes"])
    return cls in res["violation_classes"]


def replay_crash(d):
    out = os.path.join(driver.TMP, "replay-%d.json" % os.getpid())
    r = subprocess.run(d["crash_argv"] + ["--out", out], stdout=subprocess.PIPE, stderr=subprocess.STDOUT, text=True)
    return r.returncode < 0 or r.returncode in (99, 134, 139)


def replay(rec, verbose=False):
    prop = rec["property"]
    if "crash_argv" in rec.get("detail", {}):
        return replay_crash(rec["detail"])
    if prop in POSMC:
        return bool(replay_posmc(rec, verbose))
    import othermc
    return bool(othermc.replay(rec, verbose))


def run(prop, tier):
    if prop in POSMC:
        return run_posmc(prop, tier)
    import othermc
    return othermc.run(prop, tier)


def setup():
    exe = posmc_exe()
    posmc_selftest(exe)
    try:
        import othermc
        othermc.setup()
    except ImportError:
        pass
    print("setup ok")
    return 0
