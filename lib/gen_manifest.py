#!/usr/bin/env python3
"""Writes /verif/MANIFEST.json from the table below (kept in one place so it stays consistent)."""
import json, os, subprocess

VERIF = os.path.dirname(os.path.dirname(os.path.abspath(__file__)))

MC = "model_checking"
POS_NOTE = "Trusted: refchess (src/refchess.h), re-validated by perft at the start of every run; positions restricted to the property's one-ply retro-legal quantifier."
CHECKS = {
    # id: (category, technique, text, note, design_ref)
    "C01": (MC, "explicit-state enumeration (BFS graphs + exhaustive small-material placements) of the real move generator vs a reference rules model",
            "Every position of the enumerated spaces (reachable graphs from 43 seeds, also walked by real do_move/undo_move on one engine object; all 3-men, 4-men (thorough: all 55 signatures) and targeted 5-men placements incl. ep x pin, castling x attackers, double check, pinned sliders) has its generated move list compared with an independent mailbox rules model; within those spaces the verdict is complete, outside them nothing is claimed.",
            POS_NOTE, "3/C01"),
    "C02": (MC, "explicit-state enumeration of every (position, legal move) edge of the same spaces, FEN after the real do_move vs reference make",
            "Every edge of the enumerated graphs/placements plus a clock lattice: all six FEN fields after parse_uci+do_move must equal the reference model's successor; every move path <= 2-3 plies from every seed is also sent as one `position fen F moves ...` line through Uci::loop and compared via printboard.",
            POS_NOTE + " Half-move clocks <= 150.", "3/C02"),
    "C03": (MC, "explicit-state enumeration of edges and null moves + complete nested make/unmake trees on one engine object, snapshot oracle",
            "Every edge/null move of the spaces and every node of complete make/unmake trees (depth 2-5 from 43 seeds): a snapshot of all public observables is compared before/after, at every unwind; printboard+hash of the UCI position before = after go / stopped go / perft.",
            "Snapshot = FEN, keys, board, piece sets/counts, bitboards, rights, ep, clocks, repetition/draw answers, static eval, generated moves.", "3/C03"),
    "C04": (MC, "explicit-state enumeration with global identity->key / key->identity / pawn-placement->pawn-key maps over BFS graphs; neighbour-variant distinctness over placements",
            "Incremental key == from-scratch key on every edge (also null moves, unmake); every transposition arrives with the same key; positions differing in one identity component get different keys (collisions re-tested under re-randomised tables).",
            "Relative to one process (keys are random per process); accidental 64-bit collisions filtered by re-randomised re-test.", "3/C04"),
    "C05": (MC, "exhaustive enumeration of UCI sessions x every stop point x single-entry table faults on the real Uci::loop/Search (ASan build), oracle = reference rules model",
            "All sessions of four lists (go-limit alphabet x searchmoves; Search::stop() injected at EVERY node visit of small searches; session histories incl. stopped first searches; every probed key x engine-producible poison alphabet): exactly one legal bestmove, legal PVs, no sanitizer report.",
            "Forked child per session, seeded zobrist tables, virtual clock (interposed steady_clock::now). Bounded to the seed positions and depths listed in evidence.", "3/C05"),
    "C06": (MC, "stateless model checking: cooperative scheduler over hooked synchronisation/progress points, all placements of the reader thread's commands among N0 search-thread steps; separate free-running TSan pass",
            "Every interleaving at hook granularity of stop/isready with thread start, go() start-up, iteration starts and node visits of the first iterations and EVERY read/write of the stop flag (6 script x arena combinations, incl. a capture-rich arena with large quiescence trees): exactly one legal bestmove within B search-thread steps after stop returned, readyok printed, no thread blocked forever; TSan on the real binary reports no race in engine code.",
            "Scheduler serialises threads between hook points; weak-memory effects are outside it (TSan pass covers data races, by timing sampling). Promptness counted in search-thread steps.", "3/C06"),
    "C07": (MC, "explicit-state enumeration: static predicates on every state; history predicates on every prefix of every game (all move sequences to depth N) of 14 arenas and below spines of 796-1650 plies",
            "Check/mate/stalemate/material predicates on every enumerated position; occurred-before / threefold / 50-move / is_draw on every prefix of all games up to the arena depth, against a history model with identity = placement+side+rights+ep.",
            POS_NOTE, "3/C07"),
    "C08": (MC, "exhaustive enumeration of small-material positions x depths x table histories on the real search; oracle = exhaustive AND/OR mate solver on the reference model",
            "Every placement with a mate in one of 11-26 signatures and of the castling-mate family (king+rook on home squares, castling itself mates; 7-48 signatures) (half-move clock 0/98/99) x go depth 1..D x {fresh, warm, after a searchmoves-restricted search, after a stopped search}: bestmove mates; every final `score mate y` of all sessions (incl. placements with a check whose only reply is a pawn move, and the neighbourhoods of 16 tactical seeds) is verified by the solver (y as an upper bound in moves, cap 3/4, bounded solver effort).",
            "In-process sessions on the -Ofast build with tables reset to the freshly constructed state; announcements above the solver cap are counted as unverified (never as violations).", "3/C08"),
    "C09": (MC, "exhaustive enumeration of depth limits 1..45,60,100,1000 x all searchmoves subsets x table pre-states x virtual-clock steps on the real search",
            "Iterations reported are exactly 1..m with m <= d, bestmove inside searchmoves, exactly one bestmove, and every finite-limit search ends inside the node horizon; also every ordered pair of 9 go commands of different kinds in one session and depth + time control in one go.",
            "Virtual clock advancing per read is the only environment assumption for time limits.", "3/C09"),
    "C10": (MC, "exhaustive enumeration of a session grammar over boundary-driving commands against the real binary; sanitizer (ASan, bounds-strict, _GLIBCXX_ASSERTIONS, valgrind subset) as oracle",
            "Every session [book]? ([ucinewgame]? position P . go G){1..2} over boundary positions (games of 0..1600 plies, 218 moves, ten of a kind, trivial draws for depth 39..1000) is run on the instrumented real binary.",
            "Only the sanitizer checks that correspond to the statement are enabled; intra-object overflows are visible through bounds-strict only.", "3/C10"),
    "C11": (MC, "exhaustive enumeration of the complete finite domain (107,648 square/occupancy pairs x irrelevant-bit patterns, all table entries) against coordinate geometry",
            "Complete: every slider attack for every relevant occupancy (plus irrelevant-bit patterns and all two-bit full occupancies), every leaper/pawn/ray/line/castling table entry, shift<> and bit helpers.",
            "Oracle = ray walk / geometric definitions in src/tablemc.cpp.", "3/C11"),
    "C12": (MC, "exhaustive enumeration of all 662,704 KPK positions against an independent retrograde solve built from reference-model moves",
            "Complete for the property's domain: both seams (bitbase probe after normalize, evaluator verdict) against a least-fix-point over the real game graph (KQK/KRK solved first).",
            "Trusted: refchess moves; black-pawn positions as colour mirrors.", "3/C12"),
    "C13": (MC, "exhaustive enumeration of small-material placements (3-, 4-men, specialised 5/6-men on restricted boards) and seed graphs, differential oracle score(p) == score(mirror p)",
            "Every enumerated position with sufficient material is evaluated together with its colour mirror on the real evaluator.",
            "Mirror from refchess; one long-lived evaluator (cache purity is C14).", "3/C13"),
    "C14": (MC, "exhaustive enumeration of all operation sequences (length 4/5) over an alphabet constructed per process to collide in the pawn cache, vs a fresh evaluator; bounds on every evaluation of the spaces",
            "Every sequence over {eval of 8-10 colliding positions (same slot, slot 0, equal low key half), clear} equals the fresh-evaluator result; so does every sequence (length 3/4) over {eval of 24 positions, one per material class of the dispatch (bare kings, each specialised endgame, general), clear}; every placement of PP+piece families on a long-lived evaluator equals the value after a clear; seed graphs evaluate the same in two orders; every evaluation of the listed spaces (incl. 8-9 queens + 2 rooks v bare king) is strictly inside the non-mate range.",
            "Alphabet found by exhaustive key search against the process's random keys.", "3/C14"),
    "C15": (MC, "explicit-state enumeration of every (position, legal move) edge: predicates vs what the reference make does",
            "move_is_capture / move_is_quiet / move_gives_check on every edge of the spaces (incl. promotions, ep, castling, discovered and double checks).", POS_NOTE, "3/C15"),
    "C16": (MC, "explicit-state enumeration of edges/states (loaded and reached by play) + complete enumeration of all packed encodings",
            "parse_uci(uci(m)) == m and text equals the oracle's; Position(fen()) identical in every field; all (from,to,promotion) triples, castling codes and create_moveinfo tuples decode to what was encoded.", POS_NOTE, "3/C16"),
    "C17": (MC, "explicit-state enumeration of every generated move: SAN printer/parser round trip and per-position injectivity",
            "parse_san(san(m)) == m for every generated move of the spaces (multi-piece disambiguation families, castling with check/mate, promotions, 218-move position); SAN strings of one position are pairwise distinct.", POS_NOTE, "3/C17"),
    "C18": (MC, "explicit-state enumeration of positions (all rights subsets x ep geometries) vs a re-implementation of the published key layout over a frozen constant table",
            "Every enumerated position's book key equals the key computed in the published flat layout; the nine published example keys are reproduced by both.",
            "781 constants frozen from the pinned tree; 22 constants + the nine vectors independently known (DESIGN C18 honest limit).", "3/C18"),
    "C19": (MC, "exhaustive enumeration of book files (0-3 records x every truncation), all 65,536 move codes, all weight vectors x all seeds in a range, on the real reader",
            "Loaded table == complete records (direct view + contains); best = maximal weight; decoding of every move code in 4 positions; sampling never returns weight-0/foreign moves (exact) and matches weight shares within 5 sigma over the enumerated seed range.",
            "Frequency oracle is a tolerance over an enumerated seed range; codes with promotion field 5-7 are outside the format.", "3/C19"),
    "C20": (MC, "exhaustive enumeration of a stated lattice of clock states (7.7M / ~2e8 points) on the real function, -Ofast build",
            "0 <= t <= 0.7 T and monotonicity along consecutive lattice times for every lattice point; both colours with a decoy opponent clock; plus the search seam: virtual thinking time of `go wtime T` sessions stays within 70 % of T.",
            "The lattice is what is decided; 1e16 tuples exist.", "3/C20"),
}

NOT_YET = {}


def main():
    props = [json.loads(l) for l in open(os.path.join(VERIF, "properties.jsonl"))]
    checks = []
    na = []
    for p in props:
        pid = p["id"]
        if pid in CHECKS:
            cat, tech, text, note, ref = CHECKS[pid]
            checks.append(dict(
                property_id=pid,
                quick_cmd="bin/check %s quick" % pid,
                thorough_cmd="bin/check %s thorough" % pid,
                evidence_file="/verif/evidence/%s.json" % pid,
                replay_cmd_template="bin/check replay {path}",
                engine="mc",
                level_claimed=dict(category=cat, text=text, design_ref="DESIGN.md section " + ref),
                level_note=note,
                technique=tech,
            ))
        else:
            na.append(dict(property_id=pid, reason=NOT_YET.get(pid, "check not built yet in this revision of /verif (planned in DESIGN.md section 3); no claim is made")))
    try:
        commits = subprocess.run(["git", "-C", "/repo", "log", "--format=%H %s"], stdout=subprocess.PIPE, text=True).stdout.splitlines()
        hook_commits = [c.split()[0] for c in commits if " verif-hooks:" in c or c.split(" ", 1)[1].startswith("verif-hooks")]
    except Exception:
        hook_commits = []
    m = dict(
        version=1,
        setup_cmd="bin/check setup",
        hooks=dict(
            guard="CHESSPLUSPLUS_VERIF",
            enable="checks compile /repo/engine/*.cpp themselves (lib/vbuild.py) with -DCHESSPLUSPLUS_VERIF; hooks (VERIF_POINT observation points in search.cpp/uci.cpp and a drop-in HookedAtomicBool for the stop flag in search.h) are inert unless a harness installs verif::point_cb",
            baseline_off_cmd="cmake --build /repo/_build >/dev/null && ctest --test-dir /repo/_build -j8 --timeout 900",
            source_commits=hook_commits,
            add_only=True,
        ),
        engines=[dict(name="mc", path="/verif/bin/check", serves_properties=sorted(CHECKS.keys()),
                      kind_free_text="bounded-exhaustive explorers (C++ harnesses in /verif/src linked against /repo's engine objects, driven by lib/*.py)")],
        checks=checks,
        not_applicable=na,
        notes="All checks rebuild the engine from /repo's working tree (hash-keyed cache under /verif/build). Exit 0 = held on everything explored; exit 1 + VIOLATION line = violation; exit 2 = harness error (never a finding).",
    )
    json.dump(m, open(os.path.join(VERIF, "MANIFEST.json"), "w"), indent=1)
    print("MANIFEST.json written: %d checks, %d not_applicable" % (len(checks), len(na)))


if __name__ == "__main__":
    main()
