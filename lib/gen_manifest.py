#!/usr/bin/env python3
"""Writes /verif/MANIFEST.json from the table below (kept in one place so it stays consistent)."""
import json, os, subprocess

VERIF = os.path.dirname(os.path.dirname(os.path.abspath(__file__)))

MC = "model_checking"
CHECKS = {
    # id: (category, technique, text, note, design_ref)
    "C01": (MC, "explicit-state enumeration (BFS graphs + exhaustive small-material placements) of the real move generator vs a reference rules model",
            "Every position of the enumerated spaces (reachable graphs from 43 seeds; all 3-men, 4-men and targeted 5-men placements incl. ep x pin, castling x attackers, double check) has its generated move list compared with an independent mailbox rules model; within those spaces the verdict is complete, outside them nothing is claimed.",
            "Trusted: refchess (src/refchess.h), re-validated by perft at the start of every run; positions restricted to the property's one-ply retro-legal quantifier.", "3/C01"),
}

NOT_YET = {}


def main():
    props = [json.loads(l) for l in open(os.path.join(VERIF, "properties.jsonl"))]
    checks = []
    na = []
    for p in props:
        pid = p["id"]
        if pid in CHECKS:
            cat, tech, text, note, ref = CHECKS[pid]
            checks.append(dict(
                property_id=pid,
                quick_cmd="bin/check %s quick" % pid,
                thorough_cmd="bin/check %s thorough" % pid,
                evidence_file="/verif/evidence/%s.json" % pid,
                replay_cmd_template="bin/check replay {path}",
                engine="mc",
                level_claimed=dict(category=cat, text=text, design_ref="DESIGN.md section " + ref),
                level_note=note,
                technique=tech,
            ))
        else:
            na.append(dict(property_id=pid, reason=NOT_YET.get(pid, "check not built yet in this revision of /verif (planned in DESIGN.md section 3); no claim is made")))
    try:
        commits = subprocess.run(["git", "-C", "/repo", "log", "--format=%H %s"], stdout=subprocess.PIPE, text=True).stdout.splitlines()
        hook_commits = [c.split()[0] for c in commits if " verif-hooks:" in c or c.split(" ", 1)[1].startswith("verif-hooks")]
    except Exception:
        hook_commits = []
    m = dict(
        version=1,
        setup_cmd="bin/check setup",
        hooks=dict(
            guard="CHESSPLUSPLUS_VERIF",
            enable="checks compile /repo/engine/*.cpp themselves (lib/vbuild.py) with -DCHESSPLUSPLUS_VERIF; hooks are inert unless a harness installs verif::point_cb",
            baseline_off_cmd="cmake --build /repo/_build >/dev/null && ctest --test-dir /repo/_build -j8 --timeout 900",
            source_commits=hook_commits,
            add_only=True,
        ),
        engines=[dict(name="mc", path="/verif/bin/check", serves_properties=sorted(CHECKS.keys()),
                      kind_free_text="bounded-exhaustive explorers (C++ harnesses in /verif/src linked against /repo's engine objects, driven by lib/*.py)")],
        checks=checks,
        not_applicable=na,
        notes="All checks rebuild the engine from /repo's working tree (hash-keyed cache under /verif/build). Exit 0 = held on everything explored; exit 1 + VIOLATION line = violation; exit 2 = harness error (never a finding).",
    )
    json.dump(m, open(os.path.join(VERIF, "MANIFEST.json"), "w"), indent=1)
    print("MANIFEST.json written: %d checks, %d not_applicable" % (len(checks), len(na)))


if __name__ == "__main__":
    main()
