"""Hash-keyed builds of /repo's *current working tree* and of the harnesses that link it."""
import hashlib, os, shutil, subprocess, sys, glob, re
from concurrent.futures import ThreadPoolExecutor

REPO = os.environ.get("VERIF_REPO", "/repo")
VERIF = os.path.dirname(os.path.dirname(os.path.abspath(__file__)))
BUILD = os.path.join(VERIF, "build")
GUARD = "CHESSPLUSPLUS_VERIF"

COMMON = ["-std=gnu++20", "-DLOG_LEVEL=0", "-pthread"]
VARIANTS = {
    # the flags the project ships with (minus LTO, which only slows the link here)
    "rel": dict(cxx="g++", flags=["-Ofast", "-DNDEBUG", "-march=native", "-mtune=native", "-D" + GUARD]),
    "asan": dict(cxx="g++", flags=["-O1", "-g", "-DNDEBUG", "-fno-omit-frame-pointer",
                                   "-fsanitize=address,bounds-strict", "-fno-sanitize-recover=all",
                                   "-D_GLIBCXX_ASSERTIONS", "-D" + GUARD]),
    "tsan": dict(cxx="g++", flags=["-O1", "-g", "-DNDEBUG", "-fsanitize=thread", "-D" + GUARD]),
    "vg": dict(cxx="g++", flags=["-O1", "-g", "-DNDEBUG"]),
    # plain -O1 with hooks: cooperative scheduler harness (no sanitizer runtime threads)
    "hook": dict(cxx="g++", flags=["-O1", "-g", "-DNDEBUG", "-D" + GUARD]),
}


def _sha(paths, extra=""):
    h = hashlib.sha256()
    h.update(extra.encode())
    for p in sorted(paths):
        h.update(p.encode())
        with open(p, "rb") as f:
            h.update(f.read())
    return h.hexdigest()[:16]


def engine_sources():
    srcs = sorted(glob.glob(os.path.join(REPO, "engine", "*.cpp")))
    hdrs = sorted(glob.glob(os.path.join(REPO, "engine", "*.h")))
    other = [os.path.join(REPO, "CMakeLists.txt"), os.path.join(REPO, "chessplusplusConfig.h.in")]
    return srcs, hdrs, [p for p in other if os.path.exists(p)]


def _gen_config(outdir):
    cm = open(os.path.join(REPO, "CMakeLists.txt")).read()
    m = re.search(r"project\((\w+)\s+VERSION\s+([0-9.]+)", cm)
    name, ver = (m.group(1), m.group(2)) if m else ("chessplusplus", "0")
    src = open(os.path.join(REPO, "chessplusplusConfig.h.in")).read()
    src = src.replace("@PROJECT_NAME@", name).replace("@chessplusplus_VERSION@", ver)
    src = re.sub(r"@\w+@", "", src)
    with open(os.path.join(outdir, "chessplusplusConfig.h"), "w") as f:
        f.write(src)


def _run(cmd):
    r = subprocess.run(cmd, stdout=subprocess.PIPE, stderr=subprocess.STDOUT, text=True)
    if r.returncode != 0:
        sys.stderr.write("BUILD FAILED: %s\n%s\n" % (" ".join(cmd), r.stdout[-4000:]))
        raise SystemExit(2)
    return r.stdout


def _prune(prefix, keep, keep_n=3):
    """Keeps the newest few builds of a kind: a concurrently running check may still use an older one."""
    ds = sorted(glob.glob(os.path.join(BUILD, prefix + "-*")), key=lambda d: os.path.getmtime(d), reverse=True)
    for d in ds[keep_n:]:
        if os.path.basename(d) != keep:
            shutil.rmtree(d, ignore_errors=True)


def engine_build(variant, extra_flags=()):
    """Compile /repo/engine/*.cpp as they are now. Returns (dir, lib objects, main.o, flags, key)."""
    v = VARIANTS[variant]
    srcs, hdrs, other = engine_sources()
    flags = COMMON + v["flags"] + list(extra_flags)
    key = _sha(srcs + hdrs + other, " ".join([v["cxx"]] + flags))
    tag = variant + ("x" + hashlib.sha256(" ".join(extra_flags).encode()).hexdigest()[:6] if extra_flags else "")
    name = "eng-%s-%s" % (tag, key)
    out = os.path.join(BUILD, name)
    objs = [os.path.join(out, os.path.basename(s)[:-4] + ".o") for s in srcs]
    if not os.path.exists(os.path.join(out, ".done")):
        shutil.rmtree(out, ignore_errors=True)
        os.makedirs(out)
        _gen_config(out)
        inc = ["-I" + out, "-I" + os.path.join(REPO, "engine")]
        with ThreadPoolExecutor(16) as ex:
            list(ex.map(lambda so: _run([v["cxx"]] + flags + inc + ["-c", so[0], "-o", so[1]]), zip(srcs, objs)))
        open(os.path.join(out, ".done"), "w").close()
        _prune("eng-" + tag, name)
    lib = [o for o in objs if os.path.basename(o) != "main.o"]
    main = os.path.join(out, "main.o")
    return out, lib, main, flags, key


def harness_build(name, sources, variant, extra_flags=(), with_main=False, libs=(), engine_extra=()):
    """Build /verif/src/<sources> against the engine objects of `variant`. Returns exe path."""
    v = VARIANTS[variant]
    edir, lib, main, flags, ekey = engine_build(variant, engine_extra)
    srcs = [os.path.join(VERIF, "src", s) for s in sources]
    hdrs = glob.glob(os.path.join(VERIF, "src", "*.h"))
    key = _sha(srcs + hdrs, ekey + " ".join(list(extra_flags) + list(libs)) + str(with_main))
    dname = "h-%s-%s-%s" % (name, variant, key)
    out = os.path.join(BUILD, dname)
    exe = os.path.join(out, name)
    if not os.path.exists(exe):
        shutil.rmtree(out, ignore_errors=True)
        os.makedirs(out)
        inc = ["-I" + edir, "-I" + os.path.join(REPO, "engine"), "-I" + os.path.join(VERIF, "src")]
        hobjs = []
        for s in srcs:
            o = os.path.join(out, os.path.basename(s) + ".o")
            hobjs.append(o)
        with ThreadPoolExecutor(8) as ex:
            list(ex.map(lambda so: _run([v["cxx"]] + flags + list(extra_flags) + inc + ["-c", so[0], "-o", so[1]]),
                        zip(srcs, hobjs)))
        link_flags = [f for f in flags if f.startswith("-fsanitize") or f in ("-pthread", "-g")]
        _run([v["cxx"]] + link_flags + hobjs + lib + ([main] if with_main else []) + list(libs) + ["-o", exe + ".tmp"])
        os.rename(exe + ".tmp", exe)
        _prune("h-%s-%s" % (name, variant), dname)
    return exe


def engine_binary(variant, engine_extra=()):
    """The real engine executable (main.cpp included) for a variant."""
    v = VARIANTS[variant]
    edir, lib, main, flags, ekey = engine_build(variant, engine_extra)
    exe = os.path.join(edir, "chessplusplus")
    if not os.path.exists(exe):
        link_flags = [f for f in flags if f.startswith("-fsanitize") or f in ("-pthread", "-g")]
        _run([v["cxx"]] + link_flags + lib + [main, "-o", exe + ".tmp"])
        os.rename(exe + ".tmp", exe)
    return exe


if __name__ == "__main__":
    for v in sys.argv[1:] or ["rel"]:
        print(engine_build(v)[0])
