"""C05 C08 C09 (searchmc), C06 (schedmc + free-running TSan pass), C10 (sessionmc)."""
import json, os, re, shutil, subprocess, sys, time
import vbuild, driver
from driver import HarnessError, VERIF, TMP

MC = "model_checking"
SEARCH_VARIANT = os.environ.get("VERIF_SEARCH_VARIANT", "asan")


def _deadline(tier):
    return 200 if tier == "quick" else 2400


def searchmc_exe(variant=None):
    return vbuild.harness_build("searchmc", ["searchmc.cpp"], variant or SEARCH_VARIANT, extra_flags=["-fno-access-control"])


def _asan_env():
    env = dict(os.environ)
    env["ASAN_OPTIONS"] = "detect_leaks=0:abort_on_error=0:exitcode=99:allocator_may_return_null=1"
    env["UBSAN_OPTIONS"] = "print_stacktrace=1:halt_on_error=1"
    return env


def _search_jobs(prop, tier, lists):
    exe = searchmc_exe("rel" if prop == "C08" else None)
    jobs = []
    for name, nsh, extra in lists:
        for i in range(nsh):
            jobs.append(dict(argv=[exe, "--prop", prop, "--tier", tier, "--list", name, "--shard", "%d/%d" % (i, nsh),
                                   "--seed", str(driver.seed()), "--deadline", str(_deadline(tier))] + extra + (["--inproc"] if prop == "C08" else []),
                             timeout=_deadline(tier) * 2 + 300))
    return jobs


def write_replay_script(rec, path):
    s = rec["detail"]["session"]
    with open(path, "w") as f:
        f.write("#root %s\n" % s["root_fen"])
        for l in s["script"]:
            f.write(l + "\n")
        f.write("#stop_at %d\n#stop_at_first %d\n#clock %d\n#horizon %d\n#depth_limit %d\n#finite %d\n#label %s\n" % (
            s["stop_at"], s["stop_at_first"], s["clock_step_ms"], s.get("horizon", 3000000), s["depth_limit"], 1 if s["finite"] else 0, s["label"]))
        for m in s.get("searchmoves", []):
            f.write("#searchmove %s\n" % m)
        if "poison" in s:
            p = s["poison"]
            f.write("#poison %d %d %d %d %d %d\n" % (p["key"], p["score"], p["depth"], p["flag"], p["move"], p["at_line"]))


def replay_search(rec, verbose=False):
    prop = rec["property"]
    if "session" not in rec.get("detail", {}):
        return None
    exe = searchmc_exe("rel" if prop == "C08" else None)
    os.makedirs(TMP, exist_ok=True)
    script = os.path.join(TMP, "replay-%d.uci" % os.getpid())
    out = os.path.join(TMP, "replay-%d.json" % os.getpid())
    write_replay_script(rec, script)
    r = subprocess.run([exe, "--prop", prop, "--tier", rec.get("tier", "quick"), "--seed", str(driver.seed()), "--replay", script, "--out", out] + (["--inproc"] if prop == "C08" else []),
                       stdout=subprocess.PIPE, stderr=subprocess.PIPE, text=True, env=_asan_env())
    if r.returncode != 0:
        raise HarnessError("replay failed to run: " + r.stderr[-2000:])
    res = json.load(open(out))
    os.unlink(out)
    os.unlink(script)
    if verbose:
        print(r.stderr[-3000:])
        print(json.dumps(res["violation_classes"]))
    return rec["class"] in res["violation_classes"]


def run_c05(prop, tier):
    t0 = time.time()
    lists = [("limits", 16, []), ("stops", 48, []), ("history", 32, []), ("poison", 32, []), ("book", 1, [])]   # book: one shard (its book files are shared)
    merged = driver.merge(driver.run_jobs(prop, tier, _search_jobs(prop, tier, lists), env=_asan_env()))
    return driver.finish(prop, tier, MC, merged, t0,
                         rule="every session of the lists (limits x searchmoves; stop injected at EVERY node visit k; session histories incl. stopped first searches; "
                              "single-entry table poisoning at every key probed at ply<=2; an opening book configured that does / does not contain the position x both sampling policies x limit kinds): exactly one bestmove, legal per refchess, inside searchmoves, every pv a legal line, no sanitizer report",
                         assumptions=["real Uci::loop in a forked child per session (ASan + bounds-strict build), seeded zobrist tables, virtual clock",
                                      "poison entries restricted to values TTable::insert can have stored for some position (no +-VALUE_INFINITE)",
                                      "time-outs can only take effect at polls, a subset of the enumerated stop points"],
                         guards=[("sessions", 1000), ("pv_lines", 1000), ("stop_families", 10), ("poison_keys", 3), ("book_hit_sessions", 100), ("book_move_played", 100), ("book_miss_sessions", 50)],
                         replay_fn=replay_search,
                         technique="exhaustive enumeration of UCI sessions x stop points x table faults on the real search, oracle = reference rules model")


def run_c08(prop, tier):
    t0 = time.time()
    q = tier == "quick"
    sigs = (["KQk", "KRk", "Kkq", "Kkr", "KPk", "KNNk;files=4", "Kknn;files=4", "KQkn;files=4", "KRkp;files=4", "KRPkp;files=3", "KRRkp;files=4"] if q else
            ["KQk", "KRk", "Kkq", "Kkr", "KPk", "KNNk;files=6", "Kknn;files=6", "KQkn;files=5", "KQkr;files=5", "KRkb;files=5",
             "KRkp;files=5", "KQkp;files=5", "KBNk;files=5", "KRRk;files=5", "KNNkn;files=4", "KNNkp;files=4",
             "KRPkp;files=4", "KQPkp;files=3", "KPkpr;files=3", "KBPkp;files=3", "KRRkp;files=4"])
    lists = []
    for s in sigs:
        n = 16
        for i in range(n):
            head = s.split(";")[0]
            five = len(head) >= 5 and ("P" in head or "p" in head)
            both_pawns = "P" in head and "p" in head
            lists.append(("mates", 1, ["--sig", "%s;%sshard=%d/%d" % (s, "" if both_pawns else "ep=none;", i, n)] + (["--m1every", "64" if len(head) >= 5 and not both_pawns else "16", "--anyevery", "0" if q else "64"] if five else [])))
    # castling-mate family: king and rook on their home squares with the right set, every placement of the rest,
    # kept only where castling itself delivers mate (also with b1/b8 attacked, where queen-side castling stays legal)
    csigs = (["Ke1Ra1Qk", "Ke1Rh1Qk", "ke8ra8qK", "ke8rh8qK", "Ke1Ra1Qkn", "ke8ra8qKN", "Ke1Rh1Qkn"] if q else
             ["Ke1Ra1Qk", "Ke1Rh1Qk", "ke8ra8qK", "ke8rh8qK", "Ke1Ra1Rk", "Ke1Rh1Rk", "ke8ra8rK", "ke8rh8rK"] +
             [w + x for w in ("Ke1Ra1Qk", "Ke1Rh1Qk", "Ke1Ra1Rk", "Ke1Rh1Rk") for x in "nbrqp"] +
             [w + x for w in ("ke8ra8qK", "ke8rh8qK", "ke8ra8rK", "ke8rh8rK") for x in "NBRQP"])
    for s in csigs:
        stm = "w" if s[0] == "K" else "b"
        n = 1 if len(s) <= 8 else 4
        for i in range(n):
            lists.append(("mates", 1, ["--sig", "%s;ep=none;rights=max;stm=%s;shard=%d/%d" % (s, stm, i, n), "--castlemates"]))
    lists += [("history", 32, []), ("limits", 16, []), ("depths", 16, []), ("tactics", 32, [])]
    merged = driver.merge(driver.run_jobs(prop, tier, _search_jobs(prop, tier, lists), env=_asan_env()))
    return driver.finish(prop, tier, MC, merged, t0,
                         rule="(a) every placement with a mate in one (refchess) of the listed signatures x go depth 1..D x table {fresh, warm, after a search stopped at every k}: bestmove mates; "
                              "(b) every final `score mate y` of all sessions run: y != 0 and an AND/OR solver on refchess confirms mate within min(|y|, cap) moves",
                         assumptions=["sessions run in-process on the -Ofast build; the transposition table and pawn cache are reset to their freshly constructed (all-zero) state before each session",
                                      "y is an upper bound in moves as the property states (the engine counts plies); announcements above the solver cap are counted as unverified, never as violations",
                                      "table contents come only from earlier real searches of the same session"],
                         guards=[("mate_in_one_searches", 1000), ("mate_announcements", 500), ("mate_announcements_verified", 100), ("mate_in_one_only_by_castling_positions", 100)],
                         replay_fn=replay_search,
                         technique="exhaustive enumeration of small-material positions x depths x table histories on the real search, oracle = exhaustive mate solver")


def run_c09(prop, tier):
    t0 = time.time()
    lists = [("depths", 32, []), ("limits", 16, [])]
    merged = driver.merge(driver.run_jobs(prop, tier, _search_jobs(prop, tier, lists), env=_asan_env()))
    return driver.finish(prop, tier, MC, merged, t0,
                         rule="every session: `info depth` values are exactly 1..m with m <= d; bestmove inside searchmoves; exactly one bestmove; the search ends by itself within the node-visit horizon",
                         assumptions=["virtual clock advancing >= 1 ms per read is the only environment assumption for time-limited runs"],
                         guards=[("sessions", 1000), ("_outcomes", 30)],
                         replay_fn=replay_search,
                         technique="exhaustive enumeration of depth limits x searchmoves subsets x table pre-states x clock steps on the real search")


# ------------------------------------------------------------------------------------------ C06
def schedmc_exe():
    return vbuild.harness_build("schedmc", ["schedmc.cpp"], "rel")


def tsan_pass(tier):
    """Free-running ThreadSanitizer pass of the same two bodies (real binary). Returns (runs, reports)."""
    exe = vbuild.engine_binary("tsan")
    delays = [0.0, 0.001, 0.005, 0.05] if tier == "quick" else [0.0, 0.0005, 0.001, 0.002, 0.005, 0.02, 0.05, 0.2]
    reports = []
    runs = 0
    env = dict(os.environ)
    env["TSAN_OPTIONS"] = "halt_on_error=0:second_deadlock_stack=1:exitcode=0"
    for d in delays:
        for script in (["go infinite"], ["go depth 3"]):
            p = subprocess.Popen([exe], stdin=subprocess.PIPE, stdout=subprocess.PIPE, stderr=subprocess.PIPE, text=True, env=env)
            try:
                p.stdin.write("position fen 8/8/8/3k4/8/3K4/3P4/8 w - - 0 1\n%s\n" % script[0])
                p.stdin.flush()
                time.sleep(d)
                p.stdin.write("stop\nisready\n")
                p.stdin.flush()
                time.sleep(0.3)
                p.stdin.write("stop\nquit\n")
                p.stdin.flush()
                try:
                    out, err = p.communicate(timeout=20)
                except subprocess.TimeoutExpired:
                    p.kill()
                    out, err = p.communicate()
            finally:
                if p.poll() is None:
                    p.kill()
            runs += 1
            for blk in err.split("WARNING: ThreadSanitizer: ")[1:]:
                head = blk.splitlines()[0]
                frames = re.findall(r"(engine/\w+\.(?:cpp|h):\d+)", blk)
                if "data race" in head and frames:
                    # a race between the exiting main thread's destructor (~Uci after `quit` / end of input) and the
                    # already finished, detached search thread is process tear-down, not stop signalling
                    teardown = "~Uci()" in blk
                    reports.append(dict(kind=re.sub(r"\(pid=\d+\)", "", head).strip(), frames=sorted(set(frames))[:6], delay_s=d, script=script[0], teardown=teardown))
    return runs, reports


def replay_c06(rec, verbose=False):
    d = rec["detail"]
    if "a" not in d:
        return None
    exe = schedmc_exe()
    out = os.path.join(TMP, "replay-%d.json" % os.getpid())
    r = subprocess.run([exe, "--script", d["script"], "--arena", str(d.get("arena", 1)), "--one", "%d,%d" % (d["a"], d["b"]), "--bound", str(d["bound"]), "--out", out],
                       stdout=subprocess.PIPE, stderr=subprocess.PIPE, text=True)
    if r.returncode == 3:
        raise HarnessError("schedule replay is not deterministic: " + r.stderr[-2000:])
    if r.returncode != 0:
        raise HarnessError("schedule replay failed: " + r.stderr[-2000:])
    res = json.load(open(out))
    os.unlink(out)
    if verbose:
        print(r.stderr[-3000:])
    return rec["class"] in res["violation_classes"]


def run_c06(prop, tier):
    t0 = time.time()
    q = tier == "quick"
    exe = schedmc_exe()
    n0, bound = (96, 96) if q else (240, 96)
    jobs = []
    for script, n, arena in (("stop_isready", n0, 1), ("isready_stop", n0, 1), ("depth2_stop", min(n0, 120), 1), ("depth3_isready_stop", n0, 1),
                             ("stop_isready", n0, 2), ("isready_stop", n0 // 2, 2)):
        nsh = 8 if q else 16
        for i in range(nsh):
            jobs.append(dict(argv=[exe, "--script", script, "--arena", str(arena), "--n0", str(n), "--bound", str(bound), "--shard", "%d/%d" % (i, nsh),
                                   "--deadline", str(_deadline(tier))], timeout=_deadline(tier) * 2 + 300))
    sexe = searchmc_exe()
    for i in range(4):
        jobs.append(dict(argv=[sexe, "--prop", "C06", "--tier", tier, "--list", "overlap", "--shard", "%d/4" % i, "--seed", str(driver.seed()),
                               "--deadline", str(_deadline(tier))], timeout=_deadline(tier) * 2 + 300))
    merged = driver.merge(driver.run_jobs(prop, tier, jobs, env=_asan_env()))
    runs, reports = tsan_pass(tier)
    merged["counters"]["tsan_free_running_runs"] = runs
    merged["counters"]["tsan_teardown_reports_ignored"] = sum(1 for r in reports if r["teardown"])
    for rep in reports:
        if rep["teardown"]:
            continue
        cls = "C06:data_race:" + ",".join(rep["frames"][:2])
        merged["violation_classes"][cls] = merged["violation_classes"].get(cls, 0) + 1
        if sum(1 for v in merged["violations"] if v["class"] == cls) < 2:
            merged["violations"].append({"class": cls, "detail": rep})
    return driver.finish(prop, tier, MC, merged, t0,
                         rule="every schedule (a <= b <= N0) of the reader thread's two commands among the search thread's first N0 hook steps, 4 scripts: exactly one bestmove, "
                              "at most B search-thread steps between the return of `stop` and `bestmove`, `readyok` printed while the search thread is parked anywhere; "
                              "plus a free-running ThreadSanitizer pass of the real binary (race reports naming engine code are violations)",
                         assumptions=["scheduling points = the VERIF_POINT hooks (thread start, go() start-up, every iteration start, every node visit, EVERY read and write of the stop flag, EVERY write to std::cout, before bestmove); between points a thread runs alone",
                                      "memory-model effects are not explored by the serialising scheduler; races are looked for by the separate TSan pass (sampling of timings, the only non-enumerative element)",
                                      "promptness is measured in search-thread steps, not in wall time"],
                         guards=[("tsan_free_running_runs", 4), ("_outcomes", 3)],
                         replay_fn=replay_c06,
                         extra=dict(n0=n0, promptness_bound_steps=bound, max_steps_after_stop_observed=merged["counters"].get("max_steps_after_stop", 0)),
                         technique="stateless model checking: cooperative scheduler over hooked points, all placements of 2 reader commands among N0 search-thread steps")


RUNNERS = {"C05": run_c05, "C08": run_c08, "C09": run_c09, "C06": run_c06}
REPLAYERS = {"C05": replay_search, "C08": replay_search, "C09": replay_search, "C06": replay_c06}

try:
    import sessioncheck
    RUNNERS["C10"] = sessioncheck.run_c10
    REPLAYERS["C10"] = sessioncheck.replay_c10
except ImportError:
    pass


def setup():
    searchmc_exe()
    searchmc_exe("rel")
    schedmc_exe()
    vbuild.engine_binary("tsan")
    try:
        import sessioncheck
        sessioncheck.setup()
    except ImportError:
        pass
