"""Generic driver: run explorer jobs in parallel, merge results, match known findings, replay, evidence."""
import fnmatch, json, os, subprocess, sys, time, shutil
from concurrent.futures import ThreadPoolExecutor

VERIF = os.path.dirname(os.path.dirname(os.path.abspath(__file__)))
EVID = os.environ.get("VERIF_EVIDENCE_DIR", os.path.join(VERIF, "evidence"))
REPLAYS = os.path.join(EVID, "replays")
TMP = os.path.join(VERIF, "build", "tmp")
NCPU = int(os.environ.get("VERIF_JOBS", os.cpu_count() or 4))


class HarnessError(Exception):
    pass


def seed():
    try:
        return int(os.environ.get("VERIF_SEED", "1"))
    except ValueError:
        return 1


def load_seeds():
    d = {}
    for l in open(os.path.join(VERIF, "data", "seeds.fen")):
        l = l.rstrip("\n")
        if not l or l.startswith("#") or "\t" not in l:
            continue
        k, v = l.split("\t", 1)
        d[k] = v.strip()
    return d


def known_findings(prop):
    p = os.path.join(VERIF, "known_findings.json")
    if not os.path.exists(p):
        return []
    return [e for e in json.load(open(p))["findings"] if e["property"] == prop and e.get("status") == "known"]


def run_jobs(prop, tier, jobs, env=None):
    """jobs: list of dict(argv=[...], out=path or None, timeout=s, name=str).
    Each job writes an mc::Result JSON to its --out. Returns list of parsed results."""
    os.makedirs(TMP, exist_ok=True)
    results = [None] * len(jobs)
    t_start = time.time()

    def one(i):
        j = jobs[i]
        out = os.path.join(TMP, "%s-%s-%d-%d.json" % (prop, tier, os.getpid(), i))
        argv = list(j["argv"]) + ["--out", out]
        if "--deadline" in argv:
            # the deadline is global for the whole check: a job started late gets what is left
            k = argv.index("--deadline")
            argv[k + 1] = str(max(1.0, float(argv[k + 1]) - (time.time() - t_start)))
        t0 = time.time()
        try:
            r = subprocess.run(argv, stdout=subprocess.PIPE, stderr=subprocess.STDOUT, text=True,
                               timeout=j.get("timeout", 3600), env=env)
        except subprocess.TimeoutExpired:
            raise HarnessError("job timed out (harness error, not a finding): %s" % " ".join(argv))
        if r.returncode < 0 or r.returncode in (99, 134, 139):
            # the engine code crashed inside the explorer (signal / sanitizer abort): that is a finding about
            # the code under test, not a harness error; the witness is the sub-space that was being explored
            spaces = [argv[k + 1] for k, a in enumerate(argv) if a in ("--space", "--list", "--sig", "--mode", "--script")]
            cls = "%s:crash_in_engine_code:%s" % (prop, "signal_%d" % -r.returncode if r.returncode < 0 else "exit_%d" % r.returncode)
            results[i] = dict(subspaces=[], states=0, transitions=0, counters={"crashed_jobs": 1}, samples=[], outcomes=["crash"],
                              violation_classes={cls: 1},
                              violations=[{"class": cls, "detail": {"crash_argv": argv[:-2], "spaces": spaces, "output_tail": r.stdout[-1500:]}}])
            return
        if r.returncode != 0 or not os.path.exists(out):
            raise HarnessError("job failed rc=%s: %s\n%s" % (r.returncode, " ".join(argv), r.stdout[-3000:]))
        d = json.load(open(out))
        os.unlink(out)
        d["_wall"] = time.time() - t0
        d["_argv"] = argv
        results[i] = d

    with ThreadPoolExecutor(NCPU) as ex:
        futs = [ex.submit(one, i) for i in range(len(jobs))]
        for f in futs:
            f.result()
    return results


def merge(results):
    m = dict(subspaces=[], states=0, transitions=0, counters={}, violation_classes={}, violations=[], samples=[],
             outcomes=set())
    for d in results:
        m["subspaces"] += d.get("subspaces", [])
        m["states"] += d.get("states", 0)
        m["transitions"] += d.get("transitions", 0)
        for k, v in d.get("counters", {}).items():
            if k.startswith("max_") or k.startswith("retrograde_rounds") or k.startswith("solver_"):
                m["counters"][k] = max(m["counters"].get(k, 0), v)
            else:
                m["counters"][k] = m["counters"].get(k, 0) + v
        for k, v in d.get("violation_classes", {}).items():
            m["violation_classes"][k] = m["violation_classes"].get(k, 0) + v
        m["violations"] += d.get("violations", [])
        for s in d.get("samples", []):
            if len(m["samples"]) < 8:
                m["samples"].append(s)
        m["outcomes"].update(d.get("outcomes", []))
    return m


def compact_subspaces(subs, limit=400):
    """Merge shard rows of the same sub-space (name up to ';shard=')."""
    agg = {}
    order = []
    for s in subs:
        name = s["name"].split(";shard=")[0]
        if name not in agg:
            agg[name] = dict(name=name, bound=s["bound"], states=0, transitions=0, exhaustive=True, parts=0)
            order.append(name)
        a = agg[name]
        a["states"] += s["states"]
        a["transitions"] += s["transitions"]
        a["exhaustive"] = a["exhaustive"] and s["exhaustive"]
        a["parts"] += 1
    out = [agg[n] for n in order]
    return out[:limit], len(out)


def finish(prop, tier, level, merged, t0, *, rule, assumptions, replay_fn=None, guards=None, extra=None,
           technique=""):
    """Classify violations, replay, write evidence, print verdict lines. Returns exit code."""
    os.makedirs(EVID, exist_ok=True)
    kf = known_findings(prop)
    classes = merged["violation_classes"]
    known_hits, unknown = {}, {}
    for c, n in classes.items():
        hit = None
        for e in kf:
            if any(fnmatch.fnmatchcase(c, pat) for pat in e["classes"]):
                hit = e
                break
        if hit:
            known_hits.setdefault(hit["id"], [hit, 0])[1] += n
        else:
            unknown[c] = n

    # replays of unknown violations (fresh process), before reporting
    replay_paths = []
    if unknown:
        shutil.rmtree(os.path.join(REPLAYS, prop), ignore_errors=True)
        os.makedirs(os.path.join(REPLAYS, prop), exist_ok=True)
        n = 0
        for v in merged["violations"]:
            if v["class"] not in unknown or n >= 20:
                continue
            path = os.path.join(REPLAYS, prop, "%s-%d.json" % (prop, n))
            rec = dict(property=prop, tier=tier, **v)
            json.dump(rec, open(path, "w"), indent=1)
            if replay_fn is not None:
                ok = replay_fn(rec)
                if ok is False:
                    raise HarnessError("violation did not reproduce on replay (harness error): %s" % json.dumps(rec))
            replay_paths.append(path)
            n += 1

    # vacuity guards: only a run WITHOUT violations can be vacuous (a mutant may legitimately change
    # the engine output some counters are derived from)
    if not unknown:
        for g in guards or []:
            name, minimum = g
            have = merged["counters"].get(name, 0) if name != "_outcomes" else len(merged["outcomes"])
            if have < minimum:
                raise HarnessError("vacuity guard failed: %s = %s < %s" % (name, have, minimum))

    subs, nsubs = compact_subspaces(merged["subspaces"])
    exhaustive = all(s["exhaustive"] for s in subs) and nsubs == len(subs) and bool(subs)
    cov = dict(
        states=max(1, merged["states"]), transitions=max(1, merged["transitions"]),
        traces_validated_against_impl=merged["transitions"] if merged["transitions"] else merged["states"],
        samples=merged["samples"] or [{"note": "no sample recorded"}],
        exhaustive=exhaustive,
        subspaces=subs, subspaces_total=nsubs,
        distinct_outcomes=len(merged["outcomes"]),
        counters=merged["counters"],
        rule=rule,
        evaluations=max(1, merged["states"]),
        distinct_nontrivial=max(2, len(merged["outcomes"])) if len(merged["outcomes"]) >= 2 else len(merged["outcomes"]),
        violation_classes=classes,
        known_finding_matches={k: v[1] for k, v in known_hits.items()},
        technique=technique,
    )
    if extra:
        cov.update(extra)
    ev = dict(property_id=prop, tier=tier, seed=seed(), level=level, coverage=cov, assumptions=assumptions,
              wall_s=round(time.time() - t0, 2), violations=sum(unknown.values()))
    json.dump(ev, open(os.path.join(EVID, prop + ".json"), "w"), indent=1, sort_keys=True)

    for hid, (e, n) in known_hits.items():
        print("KNOWN-FINDING: property=%s %s (n=%d)" % (prop, e["text"], n))
    print("%s %s: states=%d transitions=%d subspaces=%d exhaustive=%s outcomes=%d wall=%.1fs" % (
        prop, tier, merged["states"], merged["transitions"], nsubs, exhaustive, len(merged["outcomes"]),
        time.time() - t0))
    if unknown:
        for c, n in sorted(unknown.items()):
            print("  violation class %s: %d" % (c, n))
        for p in replay_paths:
            print("VIOLATION property=%s replay=%s" % (prop, p))
        if not replay_paths:
            print("VIOLATION property=%s replay=%s" % (prop, os.path.join(EVID, prop + ".json")))
        return 1
    return 0
