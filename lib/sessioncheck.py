"""C10 — every session of a boundary-driving grammar against the REAL engine binary built with
ASan + bounds-strict + _GLIBCXX_ASSERTIONS (and a subset under valgrind memcheck)."""
import json, os, re, select, shutil, subprocess, sys, tempfile, time
from concurrent.futures import ThreadPoolExecutor
import vbuild, driver
from driver import HarnessError, VERIF, TMP

FEN_218 = "R6R/3Q4/1Q4Q1/4Q3/2Q4Q/Q4Q2/pp1Q4/kBNN1KB1 w - - 0 1"
FEN_100 = "r2q1rk1/pp2bppp/2n1bn2/8/8/1QQ2QQ1/8/K2Q4 w - - 0 1"   # five queens v a defended king: 77 legal moves, no quick mate, so deep iterations see move numbers > 64
FEN_KNIGHTS = "1NNNNNNN/P7/8/8/8/k7/8/N1N4K w - - 0 1"      # a7a8n gives the tenth knight
FEN_QUEENS = "1QQQQQQQ/P7/8/8/8/Q7/Q5pp/K5bk w - - 0 1"    # a7a8q gives the tenth queen
FEN_BARE = "8/8/8/3k4/8/3K4/8/8 w - - 0 1"
FEN_KBK = "8/8/8/3k4/8/3K4/3B4/8 w - - 0 1"
FEN_CAPTURES = "k7/8/8/8/3r1r2/2r3r1/1r1R1R1r/K2R1R2 w - - 0 1"  # long capture sequences for quiescence
FEN_QUIESCE = "1k6/1p1p1p1p/p1p1p1p1/1P1P1P1P/P1P1P1P1/8/8/1K6 w - - 0 1"


def _posmc():
    return vbuild.harness_build("posmc", ["posmc.cpp"], "rel")


_spine_cache = {}


def spine(n):
    if "full" not in _spine_cache:
        r = subprocess.run([_posmc(), "--space", "spine|1700"], stdout=subprocess.PIPE, stderr=subprocess.PIPE, text=True)
        if r.returncode != 0:
            raise HarnessError("cannot generate spine: " + r.stderr)
        _spine_cache["full"] = r.stdout.split()
    return _spine_cache["full"][:n]


def legal_moves(exe_rel, fen):
    """legal moves via the oracle (posmc prints nothing for that) — use the reference through a tiny trick:
    the C10 alphabet only needs *some* legal moves, taken from the engine's own `perft 1` output."""
    p = subprocess.run([exe_rel], input="position fen %s\nperft 1\nquit\n" % fen, stdout=subprocess.PIPE, stderr=subprocess.PIPE, text=True, timeout=60)
    return re.findall(r"^([a-h][1-8][a-h][1-8][nbrq]?): 1$", p.stdout, re.M)


class Runner:
    def __init__(self, exe, env, wrapper=()):
        self.exe, self.env, self.wrapper = exe, env, list(wrapper)

    def run(self, rounds, pre=(), timeout=300):
        """rounds: list of (position_line, go_line, needs_stop, pre_lines). Returns (ok, kind, where, stderr_tail, lines_sent)."""
        errf = tempfile.TemporaryFile()
        p = subprocess.Popen(self.wrapper + [self.exe], stdin=subprocess.PIPE, stdout=subprocess.PIPE, stderr=errf, env=self.env, bufsize=0)
        sent = []

        def send(l):
            sent.append(l if len(l) < 200 else l[:120] + " ...(%d chars)" % len(l))
            try:
                p.stdin.write((l + "\n").encode())
                p.stdin.flush()
                return True
            except (BrokenPipeError, OSError):
                return False

        fd = p.stdout.fileno()
        buf = [b""]

        def wait_best(limit):
            # manual line splitting on the raw fd: select() must not be fooled by Python-side buffering
            end = time.time() + limit
            while True:
                while b"\n" in buf[0]:
                    line, buf[0] = buf[0].split(b"\n", 1)
                    if line.startswith(b"bestmove") or line.startswith(b"Speed:"):
                        return True
                if time.time() >= end:
                    return None
                r, _, _ = select.select([fd], [], [], 0.5)
                if r:
                    chunk = os.read(fd, 65536)
                    if chunk == b"":
                        return False
                    buf[0] += chunk
                elif p.poll() is not None:
                    return False

        verdict = "ok"
        try:
            alive = True
            for l in pre:
                alive = alive and send(l)
            for (pos, go, needs_stop, extra) in rounds:
                for l in extra:
                    alive = alive and send(l)
                alive = alive and send(pos) and send(go)
                if not alive:
                    break
                if needs_stop:
                    time.sleep(0.05)
                    send("stop")
                got = wait_best(timeout)
                if got is None:
                    verdict = "no_bestmove_within_timeout"
                    break
                if got is False:
                    verdict = "engine_exited"
                    break
            send("quit")
            try:
                p.stdin.close()
            except OSError:
                pass
            end = time.time() + 30
            while p.poll() is None and time.time() < end:
                r, _, _ = select.select([fd], [], [], 0.2)
                if r and os.read(fd, 65536) == b"":
                    time.sleep(0.05)
            if p.poll() is None:
                p.kill()
                p.wait()
                if verdict == "ok":
                    verdict = "no_exit_after_quit"
        finally:
            if p.poll() is None:
                p.kill()
                p.wait()
            p.stdout.close()
        errf.seek(0)
        err = errf.read().decode(errors="replace")
        errf.close()
        rc = p.returncode
        kind, where = None, ""
        m = re.search(r"(engine/[\w.]+):(\d+):\d+: runtime error: ([^\n]*)", err)
        if m:
            kind = "bounds:" + re.sub(r"\d+", "N", m.group(3))[:60].strip().replace(" ", "_")
            where = m.group(1)
        m2 = re.search(r"ERROR: AddressSanitizer: ([\w-]+)", err)
        if not kind and m2:
            kind = "asan:" + m2.group(1)
            f = re.search(r"(engine/[\w.]+):\d+", err)
            where = f.group(1) if f else ""
        if not kind and "Assertion" in err and "failed" in err:
            kind = "glibcxx_assertion"
            f = re.search(r"(engine/[\w.]+):\d+", err)
            where = f.group(1) if f else ""
        vg = re.search(r"ERROR SUMMARY: (\d+) errors", err)
        if not kind and vg and int(vg.group(1)) > 0:
            k = re.search(r"==\d+== ((?:Conditional jump|Use of uninitialised|Invalid read|Invalid write|Syscall param)[^\n]*)", err)
            kind = "valgrind:" + (k.group(1)[:50].replace(" ", "_") if k else "error")
            f = re.search(r"\((\w+\.(?:cpp|h)):\d+\)", err)
            where = f.group(1) if f else ""
        if not kind and rc not in (0, None) and rc < 0:
            kind = "signal_%d" % (-rc)
        if not kind and verdict != "ok":
            kind = verdict
        if not kind and rc not in (0, None):
            kind = "exit_%d" % rc
        return kind, where, err[-1500:], sent


def grammar(tier, exe_rel, bookdir):
    q = tier == "quick"
    sp = lambda n: "position startpos" + (" moves " + " ".join(spine(n)) if n else "")
    P = [("spine%d" % n, sp(n), "long") for n in ([0, 700, 798, 799, 800, 801, 1600] if not q else [0, 700, 798, 799, 800, 801, 1600])]
    P += [("moves218", "position fen " + FEN_218, "big"), ("moves100", "position fen " + FEN_100, "big"),
          ("ten_knights", "position fen " + FEN_KNIGHTS + " moves a7a8n", "mid"),
          ("ten_queens", "position fen " + FEN_QUEENS + " moves a7a8q", "mid"),
          ("bare_kings", "position fen " + FEN_BARE, "trivial"),
          ("kbk", "position fen " + FEN_KBK, "trivial"),
          ("captures", "position fen " + FEN_CAPTURES, "mid"),
          ("quiesce", "position fen " + FEN_QUIESCE, "mid")]
    deep = ["go depth %d" % d for d in (39, 40, 41, 42, 60, 100, 1000)]
    G_by_class = {
        "trivial": ["go depth 1"] + deep + ["go movetime 50", "go infinite", "go", "go depth 64 movetime 4000", "go depth 41 wtime 600000 btime 600000",
                    "go depth 1000 movetime 2000"],
        "long": ["go depth 1", "go depth 2", "go depth 4", "go movetime 50", "go infinite"],
        "big": ["go depth 1", "go depth 2", "go depth 4", "go movetime 50", "go infinite", "SEARCHMOVES"],
        "mid": ["go depth 1", "go depth 3", "go movetime 50", "go infinite", "SEARCHMOVES"] + ([] if q else ["go depth 6", "go"]),
    }
    sessions = []
    # perft walks the same make/unmake and move-list machinery without the search
    for name, pos, cls in P:
        for d in ((1, 3) if q else (1, 2, 3, 4)):
            if cls == "big" and d > 2:
                continue
            sessions.append(dict(name="%s|perft %d" % (name, d), pre=[], perft=True,
                                 rounds=[(pos, "perft %d" % d, False, [])]))
    for name, pos, cls in P:
        for g in G_by_class[cls]:
            if g == "SEARCHMOVES":
                fen_part = pos[len("position fen "):].split(" moves ")[0]
                ms = legal_moves(exe_rel, fen_part) if " moves " not in pos else []
                if not ms:
                    continue
                g = "go depth 2 searchmoves " + " ".join(ms)
            for newgame in ((False, True) if not q or cls in ("trivial", "long") else (False,)):
                extra = ["ucinewgame"] if newgame else []
                sessions.append(dict(name="%s|%s%s" % (name, g[:40], "|newgame" if newgame else ""), pre=[],
                                     rounds=[(pos, g, g == "go infinite", extra)]))
    # books
    books = {"empty": b"", "one_record": bytes.fromhex("463b96181691fc9c") + bytes([0x03, 0x1c, 0, 1, 0, 0, 0, 0]),
             "truncated": bytes.fromhex("463b96181691fc9c") + bytes([0x03, 0x1c, 0, 1, 0, 0, 0, 0]) + b"\x12\x34\x56\x78"}
    for bname, content in books.items():
        path = os.path.join(bookdir, bname + ".bin")
        with open(path, "wb") as f:
            f.write(content)
        for name, pos, cls in (P[0], P[10] if len(P) > 10 else P[-1]):
            for g in ("go depth 1", "go depth 2", "go movetime 50"):
                sessions.append(dict(name="book_%s|%s|%s" % (bname, name, g), pre=["setoption name Polyglot Book value " + path],
                                     rounds=[(pos, g, False, [])]))
    # two-round sessions (thorough): second round over boundary positions x boundary go
    if not q:
        P2 = [p for p in P if p[0] in ("spine0", "spine798", "spine799", "bare_kings", "ten_knights", "moves218")]
        G2 = {"trivial": ["go depth 41", "go depth 1000"], "long": ["go depth 2", "go movetime 50"], "big": ["go depth 1"], "mid": ["go depth 3"]}
        first = list(sessions)
        for s in first:
            if s["pre"] or "|newgame" in s["name"] or s.get("perft"):
                continue
            for name, pos, cls in P2:
                for g in G2[cls]:
                    for newgame in (False, True):
                        sessions.append(dict(name=s["name"] + " ; " + name + "|" + g + ("|newgame" if newgame else ""), pre=[],
                                             rounds=s["rounds"] + [(pos, g, False, ["ucinewgame"] if newgame else [])]))
    return sessions


def _env():
    env = dict(os.environ)
    env["ASAN_OPTIONS"] = "detect_leaks=0:abort_on_error=0:exitcode=99"
    env["UBSAN_OPTIONS"] = "print_stacktrace=1:halt_on_error=1"
    return env


def run_c10(prop, tier):
    t0 = time.time()
    exe = vbuild.engine_binary("asan")
    exe_rel = vbuild.engine_binary("vg")
    bookdir = os.path.join(TMP, "c10books-%d" % os.getpid())
    os.makedirs(bookdir, exist_ok=True)
    merged = dict(subspaces=[], states=0, transitions=0, counters={}, violation_classes={}, violations=[], samples=[], outcomes=set())
    deadline = 200 if tier == "quick" else 2400
    try:
        sessions = grammar(tier, exe_rel, bookdir)
        runner = Runner(exe, _env())
        done = [0]

        def one(s):
            if time.time() - t0 > deadline:
                return None
            kind, where, err, sent = runner.run(s["rounds"], pre=s["pre"])
            return (s, kind, where, err, sent)

        with ThreadPoolExecutor(driver.NCPU) as ex:
            results = list(ex.map(one, sessions))
        complete = all(r is not None for r in results)
        n = 0
        for r in results:
            if r is None:
                continue
            s, kind, where, err, sent = r
            n += 1
            merged["transitions"] += len(sent)
            merged["outcomes"].add(kind or "clean")
            if kind:
                cls = "C10:%s:%s" % (kind, where)
                merged["violation_classes"][cls] = merged["violation_classes"].get(cls, 0) + 1
                if sum(1 for v in merged["violations"] if v["class"] == cls) < 3:
                    merged["violations"].append({"class": cls, "detail": dict(session=s["name"], commands=sent, stderr=err[-800:],
                                                                              rounds=[[a, b, c, d] for (a, b, c, d) in s["rounds"]], pre=s["pre"])})
        merged["subspaces"].append(dict(name="session grammar (ASan + bounds-strict binary)", states=n, transitions=merged["transitions"], exhaustive=complete,
                                        bound="every session [setoption book]? ([ucinewgame]? position P . go G){1..%d} over %d boundary positions x go alphabet (see lib/sessioncheck.py)" % (1 if tier == "quick" else 2, 14)))
        merged["states"] = n
        merged["samples"] = [dict(session=sessions[i]["name"]) for i in (0, len(sessions) // 2, len(sessions) - 1)]
        # valgrind memcheck subset: use of uninitialised values
        vg_runner = Runner(exe_rel, dict(os.environ), wrapper=["valgrind", "-q", "--error-exitcode=0", "--track-origins=no", "--errors-for-leak-kinds=none", "--leak-check=no"])
        vg_sessions = [s for s in sessions if s["pre"]][: (6 if tier == "quick" else 18)]
        vg_sessions += [s for s in sessions if s["name"].startswith(("bare_kings|go depth 1", "ten_knights|go depth 1", "spine0|go depth 2"))][:4]

        def vone(s):
            kind, where, err, sent = vg_runner.run(s["rounds"], pre=s["pre"], timeout=300)
            return (s, kind, where, err, sent)

        with ThreadPoolExecutor(driver.NCPU) as ex:
            vres = list(ex.map(vone, vg_sessions))
        vn = 0
        for s, kind, where, err, sent in vres:
            vn += 1
            if kind:
                cls = "C10:%s:%s%s" % (kind, where, ":book_" + s["name"].split("|")[0][5:] if s["pre"] else "")
                merged["violation_classes"][cls] = merged["violation_classes"].get(cls, 0) + 1
                if sum(1 for v in merged["violations"] if v["class"] == cls) < 2:
                    merged["violations"].append({"class": cls, "detail": dict(session=s["name"], commands=sent, stderr=err[-800:], valgrind=True,
                                                                              rounds=[[a, b, c, d] for (a, b, c, d) in s["rounds"]], pre=s["pre"])})
        # two searches of the same position in one session, the second deeper, without `position` in between:
        # the second starts from a warm table on search-stack entries the first never reached. Plain (-O1) binary,
        # oracle = crash / missing bestmove.
        plain = Runner(exe_rel, dict(os.environ))
        dg_positions = [("startpos", "position startpos"), ("kiwipete", "position fen r3k2r/p1ppqpb1/bn2pnp1/3PN3/1p2P3/2N2Q1p/PPPBBPPP/R3K2R w KQkq - 0 1"),
                        ("middlegame1", "position fen r1bq1rk1/pp2bppp/2n1pn2/3p4/2PP4/2N1PN2/PP2BPPP/R1BQ1RK1 w - - 0 9"),
                        ("italian", "position startpos moves e2e4 e7e5 g1f3 b8c6 f1c4 f8c5"), ("quiesce", "position fen " + FEN_QUIESCE),
                        ("endgame", "position fen 8/2p5/3p4/KP5r/1R3p1k/8/4P1P1/8 w - - 0 1")]
        dg_sessions = []
        for name, pos in dg_positions:
            for d1, d2 in (((4, 7), (6, 9)) if tier == "quick" else ((4, 7), (5, 8), (6, 9), (6, 10), (7, 10))):
                dg_sessions.append(dict(name="%s|go depth %d|go depth %d (no position between)" % (name, d1, d2), pre=[],
                                        rounds=[(pos, "go depth %d" % d1, False, []), ("isready", "go depth %d" % d2, False, [])]))

        def dgone(s):
            kind, where, err, sent = plain.run(s["rounds"], pre=s["pre"], timeout=600)
            return (s, kind, where, err, sent)

        with ThreadPoolExecutor(driver.NCPU) as ex:
            dres = list(ex.map(dgone, dg_sessions))
        dn = 0
        for s, kind, where, err, sent in dres:
            dn += 1
            merged["transitions"] += len(sent)
            if kind:
                cls = "C10:%s:second_deeper_go_on_same_position" % kind
                merged["violation_classes"][cls] = merged["violation_classes"].get(cls, 0) + 1
                if sum(1 for v in merged["violations"] if v["class"] == cls) < 2:
                    merged["violations"].append({"class": cls, "detail": dict(session=s["name"], commands=sent, stderr=err[-800:], plain=True,
                                                                              rounds=[[a, b, c, d] for (a, b, c, d) in s["rounds"]], pre=s["pre"])})
        merged["subspaces"].append(dict(name="second, deeper go on the same position (plain binary)", bound="6 positions x depth pairs, no `position` between the two go commands",
                                        states=dn, transitions=dn * 4, exhaustive=True))
        merged["states"] += dn
        merged["counters"]["double_go_sessions"] = dn
        merged["subspaces"].append(dict(name="valgrind memcheck subset", bound="book sessions + 4 boundary sessions under memcheck (uninitialised value use)", states=vn, transitions=vn, exhaustive=True))
        merged["states"] += vn
        merged["counters"]["sessions"] = n
        merged["counters"]["valgrind_sessions"] = vn
        return driver.finish(prop, tier, "model_checking", merged, t0,
                             rule="every session of the grammar run against the real binary over pipes; oracle = ASan / bounds-strict / _GLIBCXX_ASSERTIONS report, signal, missing bestmove, valgrind error",
                             assumptions=["spines are legal games produced by refchess (no capture, no threefold repetition, half-move clock < 100)",
                                          "only UBSan's bounds-strict check is enabled (see DESIGN 2.1)", "book files live under /verif/build/tmp and are removed afterwards"],
                             guards=[("sessions", 50), ("valgrind_sessions", 4)], replay_fn=None,
                             technique="exhaustive enumeration of a session grammar over boundary-driving commands, sanitizer as oracle")
    finally:
        shutil.rmtree(bookdir, ignore_errors=True)


def replay_c10(rec, verbose=False):
    d = rec["detail"]
    exe = vbuild.engine_binary("vg" if (d.get("valgrind") or d.get("plain")) else "asan")
    wrapper = ["valgrind", "-q", "--error-exitcode=0", "--leak-check=no"] if d.get("valgrind") else []
    bookdir = os.path.join(TMP, "c10books-replay")
    os.makedirs(bookdir, exist_ok=True)
    r = Runner(exe, _env(), wrapper=wrapper)
    kind, where, err, sent = r.run([tuple(x) for x in d["rounds"]], pre=d.get("pre", []))
    if verbose:
        print(kind, where)
        print(err[-1500:])
    return kind is not None


def setup():
    vbuild.engine_binary("asan")
    vbuild.engine_binary("vg")
