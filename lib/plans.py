"""Per-property exploration plans for the position-level explorer posmc (C01-C04, C07, C15-C18)."""
import os
from driver import load_seeds, VERIF

SEEDS = load_seeds()

MEN3 = ["KQk", "KRk", "KBk", "KNk", "KPk", "Kkq", "Kkr", "Kkb", "Kkn", "Kkp"]
# every 4-men signature (white pieces upper case): 2 extra men chosen from QRBNP for either side
_K = "QRBNP"
MEN4 = []
for i, a in enumerate(_K):
    for b in _K[i:]:
        MEN4.append("K%s%sk" % (a, b))          # both white
        MEN4.append("Kk%s%s" % (a.lower(), b.lower()))  # both black
for a in _K:
    for b in _K:
        MEN4.append("K%sk%s" % (a, b.lower()))  # one each (ordered pairs cover both colour assignments)
MEN4 = sorted(set(MEN4))

EP_PIN = ["KPkp%s;ep=cap" % s for s in "brq"] + ["KP%skp;ep=cap" % s for s in "BRQ"]
CASTLE_FAMILY = [
    "Ke1Ra1Rh1k%s" % x for x in "qrbnp"
] + ["ke8ra8rh8K%s" % x for x in "QRBNP"] + [
    "Ke1Ra1Rh1k%sN;rights=max" % x for x in "qrb"
] + ["ke8ra8rh8K%sn;rights=max" % x for x in "QRB"] + [
    "Ke1Rh1k%s%s;rights=max" % (x, y) for x, y in ("qn", "rb")
] + ["ke8ra8K%s%s;rights=max" % (x, y) for x, y in ("QN", "RB")]
DOUBLE_CHECK = ["Kkqr;files=6", "Kkrn;files=6", "Kkbn;files=6", "KNkqr;files=5", "KPkrb;files=5", "KRkqn;files=5",
                "Kkrbp;files=5", "kKRB;files=6", "kKQN;files=6", "kbKRN;files=5"]
PROMO_FAMILY = ["KPk%s" % x for x in "qrbn"] + ["K%skp" % x for x in "QRBN"] + ["KPPk", "Kkpp"]

ARENAS = {
    # name: (fen, quick depth, thorough depth)
    "blocked_pawns": ("4k3/4p3/4P3/8/8/8/8/4K3 w - - 0 1", 8, 10),
    "boxed_kings": ("k7/p1p5/P1P5/8/8/5p1p/5P1P/7K w - - 0 1", 12, 16),
    "rook_rights": ("4k3/8/8/8/8/8/8/R3K3 w Q - 0 1", 5, 6),
    "castle_rights": ("r3k2r/8/8/8/8/8/8/R3K2R w KQkq - 0 1", 4, 5),
    "ep_identity": ("4k3/8/8/8/1p6/8/P7/4K3 w - - 0 1", 7, 9),
    "clock_96": ("4k3/8/8/8/8/8/8/R3K3 w - - 96 60", 5, 6),
    "clock_98_castle": ("r3k3/8/8/8/8/8/8/4K2R w Kq - 97 60", 4, 5),
    "material": ("k7/8/8/8/8/8/1n6/KB6 w - - 0 1", 7, 9),
    "material2": ("k7/8/8/8/8/8/1p6/K1N5 w - - 0 1", 6, 8),
    "knight_dance": ("k7/8/8/8/8/8/8/K1N5 w - - 0 1", 7, 9),
    "mates": ("7k/8/5K2/6Q1/8/8/8/8 w - - 0 1", 4, 5),
    # double push, castling as the very next ply, then the post-castling position recurs
    "ep_then_castle_w": ("4k3/p7/8/8/8/8/8/4K2R b K - 0 1", 6, 7),
    "ep_then_castle_b": ("r3k3/8/8/8/8/8/7P/4K3 w q - 0 1", 6, 7),
    "ep_then_castle_q": ("4k3/7p/8/8/8/8/8/R3K3 b Q - 0 1", 6, 7),
    # promotions (with and without capture) while the clock is about to reach 100
    "promo_clock": ("1n2k3/P7/8/8/8/8/8/4K3 w - - 97 60", 4, 5),
    "promo_clock_b": ("4k3/8/8/8/8/8/p7/1N2K3 b - - 96 60", 5, 6),
    # an unmoved rook captured on its home square while the right is held (by a bishop / by a promoting pawn),
    # then king shuffles: the position right after the capture recurs after the first king move
    "home_rook_captured_w": ("4k2r/8/8/8/8/8/1B6/4K3 w k - 0 1", 6, 7),
    "home_rook_captured_b": ("4k3/8/8/8/8/8/1p6/R3K3 b Q - 0 1", 6, 6),
}


def shard(spec, n):
    return ["sig|%s;shard=%d/%d" % (spec, i, n) for i in range(n)]


def posmc_spaces(prop, tier):
    """Returns list of job space-lists (each job = list of --space specs run in one process)."""
    q = tier == "quick"
    jobs = []
    S = SEEDS

    def bfs(names, depth):
        for n in names:
            jobs.append(["bfs|%s|%d" % (S[n], depth)])

    all_seed_names = list(S.keys())
    heavy = prop in ("C02", "C03", "C04", "C15", "C16", "C17")   # per-edge work
    very_heavy = prop in ("C17", "C03")

    if prop in ("C01", "C02", "C04", "C07", "C15", "C16", "C17", "C18", "C03"):
        # S1 reachable graphs
        if very_heavy:
            bfs(["startpos"], 2 if q else 3)
            bfs([n for n in all_seed_names if n != "startpos"], 1 if q else 2)
        elif heavy:
            bfs(["startpos"], 3 if q else 4)
            bfs([n for n in all_seed_names if n != "startpos"], 1 if q else 2)
            if not q:
                bfs(["kiwipete", "perft4", "perft5", "promo_knights", "castle_bare"], 3)
        else:
            bfs(["startpos"], 3 if q else 5)
            bfs([n for n in all_seed_names if n != "startpos"], 2 if q else 3)

    # positions reached by real play on one engine object (do_move / undo_move side effects)
    if prop in ("C01", "C02", "C04", "C07", "C15", "C17", "C18"):
        for n in all_seed_names:
            big = n in ("moves218", "ten_queens", "ten_knights", "san_queens", "san_knights", "kiwipete", "perft4", "perft4m", "perft5", "perft6",
                        "middlegame1", "middlegame2", "pins", "double_check2", "prop_c17", "startpos")
            d = (2 if big else 3) if (q or very_heavy or heavy) else (3 if big else 4)
            if prop == "C17" and big and q:
                d = 1
            jobs.append(["tree|%s|%d" % (S[n], d)])

    # S2 small-scope placements
    def sig(spec, nsh=1):
        if nsh == 1:
            jobs.append(["sig|" + spec])
        else:
            for s in shard(spec, nsh):
                jobs.append([s])

    if prop == "C01":
        for s in MEN3:
            sig(s)
        for s in EP_PIN:
            sig(s, 4)
        for s in CASTLE_FAMILY:
            sig(s, 2)
        for s in (DOUBLE_CHECK[:3] + DOUBLE_CHECK[7:9] if q else DOUBLE_CHECK):
            sig(s, 2 if q else 8)
        four = ["KPkp", "KRkp", "KPPk", "Kkpp"] if q else MEN4
        for s in four:
            sig(s, 16)
        if q:
            # pinned sliders (diagonal and straight) with both kings possibly on the pin line
            for s in ["KQkb;files=6", "KBkq;files=6", "KQkq;files=6", "KRkr;files=6", "KQkr;files=6", "KBkb;files=6"]:
                sig(s, 4)
        if not q:
            # five-men families on a five-file board: pawn + heavy pieces, minor pieces + pawn, pawn races
            for s in ["KRPkr;files=5", "KQPkq;files=5", "KBNkp;files=5", "KPPkp;files=5", "KRkpp;files=5", "KNPkb;files=5",
                      "KQkbp;files=5", "KBkqn;files=5", "KRkrn;files=5", "KQNkb;files=5"]:
                sig(s, 32)
    elif prop in ("C02", "C15", "C04", "C16"):
        for s in MEN3:
            sig(s, 2)
        for s in EP_PIN[:2] if q else EP_PIN:
            sig(s, 8)
        for s in (CASTLE_FAMILY[:10] if q else CASTLE_FAMILY):
            sig(s, 2)
        if q:
            for s in ["KPkq;files=5", "KQkp;files=5", "KPPk;files=5", "KPkp;files=6", "KRkp;files=5", "KPkr;files=5"]:
                sig(s, 8)
        else:
            for s in PROMO_FAMILY + ["KPkp", "KPPk", "Kkpp", "KRkp", "KQkp", "KPkr", "KPkq", "KBkp", "KNkp", "KPkb", "KPkn"]:
                sig(s, 16)
        if prop == "C16":
            jobs.append(["encoding"])
            for n in (["startpos", "kiwipete", "promo_knights", "castle_bare", "ep_both"] if q else all_seed_names):
                jobs.append(["tree|%s|%d" % (S[n], 2 if q else 3)])
        if prop in ("C02", "C16"):
            jobs.append(["lattice|" + S[n] for n in all_seed_names])
    elif prop == "C03":
        for s in (["KPk", "Kkp", "KQk", "KRk"] if q else MEN3):
            sig(s, 4)
        for s in (EP_PIN[:1] if q else EP_PIN[:3]):
            sig(s, 16)
        for s in (CASTLE_FAMILY[:2] if q else CASTLE_FAMILY[:10]):
            sig(s, 4)
        for n in all_seed_names:
            big = n in ("moves218", "ten_queens", "ten_knights", "san_queens", "san_knights", "kiwipete", "perft4", "perft4m", "perft5", "perft6", "middlegame1", "middlegame2", "pins", "double_check2", "prop_c17")
            d = (2 if big else 3) if q else (3 if big else 4)
            tiny = n in ("castle_check", "castle_mate", "promo_check", "ep_hpin", "ep_hpin_w", "ep_dpin", "ep_dpin_b", "ep_vpin", "ep_check", "ep_both", "ep_push",
                         "ep_discover", "double_check", "mate_nets", "stalemates")
            if not q and tiny:
                d = 5
            jobs.append(["tree|%s|%d" % (S[n], d)])
    elif prop == "C07":
        for s in MEN3:
            sig(s)
        for s in (["KBkb;files=6", "KNNk;files=6", "KBkn;files=6", "KPkp;files=5"] if q else MEN4):
            sig(s, 8 if q else 16)
        for s in DOUBLE_CHECK[:3]:
            sig(s, 2)
        # en-passant capture as (nearly) the only reply to a check: mate / stalemate answers depend on it
        for s in (["KRPkp;files=5;ep=cap", "KPkpr;files=5;ep=cap"] if q else ["KRPkp;ep=cap", "KPkpr;ep=cap", "KQPkp;ep=cap", "KPkpq;ep=cap", "KPPkp;ep=cap", "KPkpp;ep=cap"]):
            sig(s, 8 if q else 16)
        for name, (fen, dq, dt) in ARENAS.items():
            jobs.append(["games|%s|%d" % (fen, dq if q else dt)])
        # histories around and beyond the 800-entry history ring: full trees (depth 2-3) and
        # knight-shuffle trees deep enough for three-fold repetition across the wrap-around
        for n in ([796, 799, 800, 801, 1599, 1601] if q else list(range(790, 812)) + [1595, 1599, 1600, 1601, 1605, 1650]):
            jobs.append(["longgames|%d|%d" % (n, 2 if q else 3)])
            jobs.append(["longgames|%d|%d|auto" % (n, 10 if q else 12)])
    elif prop == "C17":
        for s in (["KQk", "KPk", "Kkp", "KRk", "Kkn"] if q else MEN3):
            sig(s, 8)
        for s in (["KQQk;files=5", "KNNk;files=6", "KRRk;files=5", "KQQQk;files=4", "KNNNk;files=4", "Ke1Ra1Rh1kq;rights=max"] if q else
                  ["KQQk", "KNNk", "KRRk", "KBBk", "KQQQk;files=5", "KNNNk;files=5", "KRRRk;files=5", "Kkqqq;files=5",
                   "KNNNNk;files=4", "KQQQQk;files=4", "KPkq", "KPkr", "KPPk"] + CASTLE_FAMILY[:10]):
            sig(s, 16)
    elif prop == "C18":
        for s in MEN3:
            sig(s)
        for s in ["KPkp", "KPPkp;files=4", "KPkpp;files=4", "KPPkpp;files=3"] + CASTLE_FAMILY[:10] + (["KPPkpp;files=4"] if not q else []):
            sig(s, 16)
        sig("Ke1Ra1Rh1ke8ra8rh8Pp", 8)
        jobs.append(["vectors"])
    return jobs
