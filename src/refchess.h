// refchess — deliberately boring mailbox reference model of the rules of chess.
// Trusted base of the position-level checks.  No bitboards, no tables shared with
// the engine.  Squares: a1 = 0 … h8 = 63 (file = sq & 7, rank = sq >> 3).
#ifndef VERIF_REFCHESS_H
#define VERIF_REFCHESS_H

#include <cstdint>
#include <cstring>
#include <string>
#include <vector>
#include <algorithm>
#include <sstream>

namespace ref
{
enum { WHITE = 0, BLACK = 1 };
enum { CR_WK = 1, CR_WQ = 2, CR_BK = 4, CR_BQ = 8 };

struct Pos
{
    char b[64];  // '.' or one of PNBRQKpnbrqk
    int stm;     // side to move
    int cr;      // castling rights mask
    int ep;      // en-passant target square or -1
    int hmc;     // half-move clock
    int fmn;     // full-move number
};

struct Mv
{
    uint8_t from, to;
    char promo;     // 0 or 'n','b','r','q'
    uint8_t flags;  // see below
};
enum { F_CAPTURE = 1, F_EP = 2, F_CASTLE_K = 4, F_CASTLE_Q = 8, F_DOUBLE = 16 };

inline int fileof(int s) { return s & 7; }
inline int rankof(int s) { return s >> 3; }
inline bool is_white(char c) { return c >= 'A' && c <= 'Z'; }
inline bool is_black(char c) { return c >= 'a' && c <= 'z'; }
inline int color_of(char c) { return is_white(c) ? WHITE : BLACK; }
inline char lower(char c) { return (c >= 'A' && c <= 'Z') ? char(c + 32) : c; }
inline char mk(int side, char kind_lower) { return side == WHITE ? char(kind_lower - 32) : kind_lower; }

inline int king_sq(const Pos& p, int side)
{
    char k = side == WHITE ? 'K' : 'k';
    for (int s = 0; s < 64; ++s)
        if (p.b[s] == k) return s;
    return -1;
}

static const int KN_DF[8] = {1, 2, 2, 1, -1, -2, -2, -1};
static const int KN_DR[8] = {2, 1, -1, -2, -2, -1, 1, 2};
static const int K_DF[8] = {1, 1, 0, -1, -1, -1, 0, 1};
static const int K_DR[8] = {0, 1, 1, 1, 0, -1, -1, -1};

// is square s attacked by any piece of colour `by`?
inline bool attacked(const Pos& p, int s, int by)
{
    int f = fileof(s), r = rankof(s);
    // pawns
    {
        int pr = by == WHITE ? r - 1 : r + 1;  // rank on which an attacking pawn stands
        char pw = by == WHITE ? 'P' : 'p';
        if (pr >= 0 && pr < 8)
        {
            if (f > 0 && p.b[pr * 8 + f - 1] == pw) return true;
            if (f < 7 && p.b[pr * 8 + f + 1] == pw) return true;
        }
    }
    char kn = mk(by, 'n'), kg = mk(by, 'k'), bi = mk(by, 'b'), ro = mk(by, 'r'), qu = mk(by, 'q');
    for (int i = 0; i < 8; ++i)
    {
        int nf = f + KN_DF[i], nr = r + KN_DR[i];
        if (nf >= 0 && nf < 8 && nr >= 0 && nr < 8 && p.b[nr * 8 + nf] == kn) return true;
    }
    for (int i = 0; i < 8; ++i)
    {
        int nf = f + K_DF[i], nr = r + K_DR[i];
        if (nf >= 0 && nf < 8 && nr >= 0 && nr < 8 && p.b[nr * 8 + nf] == kg) return true;
    }
    for (int i = 0; i < 8; ++i)
    {
        int df = K_DF[i], dr = K_DR[i];
        bool diag = df != 0 && dr != 0;
        int nf = f + df, nr = r + dr;
        while (nf >= 0 && nf < 8 && nr >= 0 && nr < 8)
        {
            char c = p.b[nr * 8 + nf];
            if (c != '.')
            {
                if (c == qu || (diag ? c == bi : c == ro)) return true;
                break;
            }
            nf += df;
            nr += dr;
        }
    }
    return false;
}

inline bool in_check(const Pos& p, int side)
{
    int k = king_sq(p, side);
    return k >= 0 && attacked(p, k, 1 - side);
}

// number of enemy pieces that individually attack `side`'s king (coverage statistics only)
inline int count_checkers(const Pos& p, int side)
{
    int k = king_sq(p, side);
    if (k < 0) return 0;
    int n = 0;
    for (int s = 0; s < 64; ++s)
    {
        char c = p.b[s];
        if (c == '.' || color_of(c) == side) continue;
        Pos t = p;
        for (int u = 0; u < 64; ++u)
            if (u != s && t.b[u] != '.' && color_of(t.b[u]) != side) t.b[u] = '#';  // inert blocker
        if (attacked(t, k, 1 - side)) ++n;
    }
    return n;
}

void make(const Pos& p, const Mv& m, Pos& o);

inline void add_pawn_move(std::vector<Mv>& out, int from, int to, uint8_t flags, bool promo)
{
    if (promo)
    {
        for (char c : {'q', 'r', 'b', 'n'}) out.push_back(Mv{uint8_t(from), uint8_t(to), c, flags});
    }
    else
        out.push_back(Mv{uint8_t(from), uint8_t(to), 0, flags});
}

// pseudo-legal moves (castling already fully checked for attacked squares)
inline void gen_pseudo(const Pos& p, std::vector<Mv>& out)
{
    int us = p.stm, them = 1 - us;
    for (int s = 0; s < 64; ++s)
    {
        char c = p.b[s];
        if (c == '.' || color_of(c) != us) continue;
        int f = fileof(s), r = rankof(s);
        char k = lower(c);
        if (k == 'p')
        {
            int dir = us == WHITE ? 1 : -1;
            int start = us == WHITE ? 1 : 6;
            int last = us == WHITE ? 7 : 0;
            int nr = r + dir;
            if (nr < 0 || nr > 7) continue;  // pawn on last rank: ill-formed, no moves
            bool promo = nr == last;
            if (p.b[nr * 8 + f] == '.')
            {
                add_pawn_move(out, s, nr * 8 + f, 0, promo);
                if (r == start && p.b[(r + 2 * dir) * 8 + f] == '.')
                    out.push_back(Mv{uint8_t(s), uint8_t((r + 2 * dir) * 8 + f), 0, F_DOUBLE});
            }
            for (int df : {-1, 1})
            {
                int nf = f + df;
                if (nf < 0 || nf > 7) continue;
                int t = nr * 8 + nf;
                char d = p.b[t];
                if (d != '.' && color_of(d) == them)
                    add_pawn_move(out, s, t, F_CAPTURE, promo);
                else if (d == '.' && t == p.ep)
                    out.push_back(Mv{uint8_t(s), uint8_t(t), 0, uint8_t(F_CAPTURE | F_EP)});
            }
        }
        else if (k == 'n' || k == 'k')
        {
            const int* DF = k == 'n' ? KN_DF : K_DF;
            const int* DR = k == 'n' ? KN_DR : K_DR;
            for (int i = 0; i < 8; ++i)
            {
                int nf = f + DF[i], nr = r + DR[i];
                if (nf < 0 || nf > 7 || nr < 0 || nr > 7) continue;
                char d = p.b[nr * 8 + nf];
                if (d == '.')
                    out.push_back(Mv{uint8_t(s), uint8_t(nr * 8 + nf), 0, 0});
                else if (color_of(d) == them)
                    out.push_back(Mv{uint8_t(s), uint8_t(nr * 8 + nf), 0, F_CAPTURE});
            }
        }
        else
        {
            for (int i = 0; i < 8; ++i)
            {
                int df = K_DF[i], dr = K_DR[i];
                bool diag = df != 0 && dr != 0;
                if (k == 'b' && !diag) continue;
                if (k == 'r' && diag) continue;
                int nf = f + df, nr = r + dr;
                while (nf >= 0 && nf < 8 && nr >= 0 && nr < 8)
                {
                    char d = p.b[nr * 8 + nf];
                    if (d == '.')
                        out.push_back(Mv{uint8_t(s), uint8_t(nr * 8 + nf), 0, 0});
                    else
                    {
                        if (color_of(d) == them) out.push_back(Mv{uint8_t(s), uint8_t(nr * 8 + nf), 0, F_CAPTURE});
                        break;
                    }
                    nf += df;
                    nr += dr;
                }
            }
        }
    }
    // castling: king and rook on home squares, right present, squares between empty,
    // king not in check, does not pass through or land on an attacked square
    int home = us == WHITE ? 4 : 60;
    char K = mk(us, 'k'), R = mk(us, 'r');
    if (p.b[home] == K)
    {
        int kr = us == WHITE ? CR_WK : CR_BK, qr = us == WHITE ? CR_WQ : CR_BQ;
        if ((p.cr & kr) && p.b[home + 3] == R && p.b[home + 1] == '.' && p.b[home + 2] == '.' &&
            !attacked(p, home, them) && !attacked(p, home + 1, them) && !attacked(p, home + 2, them))
            out.push_back(Mv{uint8_t(home), uint8_t(home + 2), 0, F_CASTLE_K});
        if ((p.cr & qr) && p.b[home - 4] == R && p.b[home - 1] == '.' && p.b[home - 2] == '.' &&
            p.b[home - 3] == '.' && !attacked(p, home, them) && !attacked(p, home - 1, them) &&
            !attacked(p, home - 2, them))
            out.push_back(Mv{uint8_t(home), uint8_t(home - 2), 0, F_CASTLE_Q});
    }
}

inline void make(const Pos& p, const Mv& m, Pos& o)
{
    o = p;
    int us = p.stm, them = 1 - us;
    char pc = p.b[m.from];
    char k = lower(pc);
    bool capture = p.b[m.to] != '.';
    o.b[m.from] = '.';
    if (m.flags & F_EP)
    {
        int capsq = rankof(m.from) * 8 + fileof(m.to);
        o.b[capsq] = '.';
        capture = true;
    }
    o.b[m.to] = m.promo ? mk(us, m.promo) : pc;
    if (m.flags & F_CASTLE_K)
    {
        o.b[m.from + 3] = '.';
        o.b[m.from + 1] = mk(us, 'r');
    }
    if (m.flags & F_CASTLE_Q)
    {
        o.b[m.from - 4] = '.';
        o.b[m.from - 1] = mk(us, 'r');
    }
    // rights
    if (k == 'k') o.cr &= us == WHITE ? ~(CR_WK | CR_WQ) : ~(CR_BK | CR_BQ);
    auto touch = [&](int sq) {
        if (sq == 7) o.cr &= ~CR_WK;
        if (sq == 0) o.cr &= ~CR_WQ;
        if (sq == 63) o.cr &= ~CR_BK;
        if (sq == 56) o.cr &= ~CR_BQ;
    };
    touch(m.from);
    touch(m.to);
    // en passant target after every double push (PGN/FEN convention, also the engine's)
    o.ep = -1;
    if (k == 'p' && std::abs(int(m.to) - int(m.from)) == 16) o.ep = (int(m.from) + int(m.to)) / 2;
    // clocks
    if (k == 'p' || capture)
        o.hmc = 0;
    else
        o.hmc = p.hmc + 1;
    if (us == BLACK) o.fmn = p.fmn + 1;
    o.stm = them;
}

inline void gen_legal(const Pos& p, std::vector<Mv>& out)
{
    std::vector<Mv> ps;
    ps.reserve(64);
    gen_pseudo(p, ps);
    out.clear();
    Pos t;
    for (const Mv& m : ps)
    {
        make(p, m, t);
        if (!in_check(t, p.stm)) out.push_back(m);
    }
}

inline std::string sqname(int s)
{
    std::string r;
    r += char('a' + fileof(s));
    r += char('1' + rankof(s));
    return r;
}

inline std::string uci(const Mv& m)
{
    std::string s = sqname(m.from) + sqname(m.to);
    if (m.promo) s += m.promo;
    return s;
}

inline std::string placement(const Pos& p)
{
    std::string s;
    for (int r = 7; r >= 0; --r)
    {
        int e = 0;
        for (int f = 0; f < 8; ++f)
        {
            char c = p.b[r * 8 + f];
            if (c == '.')
                ++e;
            else
            {
                if (e) s += char('0' + e), e = 0;
                s += c;
            }
        }
        if (e) s += char('0' + e);
        if (r) s += '/';
    }
    return s;
}

// identity used by the repetition rules: placement + side + rights + ep square
inline std::string identity(const Pos& p)
{
    std::string s = placement(p);
    s += p.stm == WHITE ? " w " : " b ";
    if (!p.cr)
        s += '-';
    else
    {
        if (p.cr & CR_WK) s += 'K';
        if (p.cr & CR_WQ) s += 'Q';
        if (p.cr & CR_BK) s += 'k';
        if (p.cr & CR_BQ) s += 'q';
    }
    s += ' ';
    s += p.ep < 0 ? std::string("-") : sqname(p.ep);
    return s;
}

inline std::string fen(const Pos& p)
{
    return identity(p) + " " + std::to_string(p.hmc) + " " + std::to_string(p.fmn);
}

inline bool parse_fen(const std::string& f, Pos& p)
{
    std::istringstream is(f);
    std::string pl, side, cr, ep;
    if (!(is >> pl >> side >> cr >> ep)) return false;
    std::memset(p.b, '.', 64);
    int r = 7, fi = 0;
    for (char c : pl)
    {
        if (c == '/')
        {
            --r;
            fi = 0;
        }
        else if (c >= '1' && c <= '8')
            fi += c - '0';
        else
        {
            if (r < 0 || fi > 7) return false;
            p.b[r * 8 + fi++] = c;
        }
    }
    p.stm = side == "w" ? WHITE : BLACK;
    p.cr = 0;
    for (char c : cr)
    {
        if (c == 'K') p.cr |= CR_WK;
        if (c == 'Q') p.cr |= CR_WQ;
        if (c == 'k') p.cr |= CR_BK;
        if (c == 'q') p.cr |= CR_BQ;
    }
    p.ep = ep == "-" ? -1 : (ep[0] - 'a') + 8 * (ep[1] - '1');
    p.hmc = 0;
    p.fmn = 1;
    is >> p.hmc >> p.fmn;
    return true;
}

// one-ply retro-legality as stated in the quantifier of C01
inline bool retro_ok(const Pos& p)
{
    int wk = -1, bk = -1, cnt[128] = {0};
    for (int s = 0; s < 64; ++s)
    {
        char c = p.b[s];
        if (c == '.') continue;
        cnt[int(c)]++;
        if (c == 'K')
        {
            if (wk >= 0) return false;
            wk = s;
        }
        if (c == 'k')
        {
            if (bk >= 0) return false;
            bk = s;
        }
        if ((c == 'P' || c == 'p') && (rankof(s) == 0 || rankof(s) == 7)) return false;
    }
    if (wk < 0 || bk < 0) return false;
    if (std::abs(fileof(wk) - fileof(bk)) <= 1 && std::abs(rankof(wk) - rankof(bk)) <= 1) return false;
    for (const char* q = "PNBRQpnbrq"; *q; ++q)
        if (cnt[int(*q)] > 10) return false;
    if (cnt[int('P')] > 8 || cnt[int('p')] > 8) return false;
    if (in_check(p, 1 - p.stm)) return false;
    if ((p.cr & CR_WK) && !(p.b[4] == 'K' && p.b[7] == 'R')) return false;
    if ((p.cr & CR_WQ) && !(p.b[4] == 'K' && p.b[0] == 'R')) return false;
    if ((p.cr & CR_BK) && !(p.b[60] == 'k' && p.b[63] == 'r')) return false;
    if ((p.cr & CR_BQ) && !(p.b[60] == 'k' && p.b[56] == 'r')) return false;
    if (p.ep >= 0)
    {
        // the side that just moved is 1 - stm; its pawn stands in front of the ep square
        int mover = 1 - p.stm;
        int er = rankof(p.ep), ef = fileof(p.ep);
        if (mover == WHITE ? er != 2 : er != 5) return false;
        int pawn_sq = mover == WHITE ? p.ep + 8 : p.ep - 8;
        int orig_sq = mover == WHITE ? p.ep - 8 : p.ep + 8;
        (void)ef;
        if (p.b[pawn_sq] != mk(mover, 'p')) return false;
        if (p.b[p.ep] != '.' || p.b[orig_sq] != '.') return false;
        // the double push itself must have been legal: in the position before it the side
        // now to move (then not to move) must not have been in check
        Pos before = p;
        before.b[pawn_sq] = '.';
        before.b[orig_sq] = mk(mover, 'p');
        if (in_check(before, p.stm)) return false;
    }
    return true;
}

inline Pos mirror(const Pos& p)
{
    Pos o = p;
    for (int s = 0; s < 64; ++s)
    {
        char c = p.b[s ^ 56];
        if (c == '.')
            o.b[s] = '.';
        else
            o.b[s] = is_white(c) ? char(c + 32) : char(c - 32);
    }
    o.stm = 1 - p.stm;
    o.cr = ((p.cr & 3) << 2) | ((p.cr >> 2) & 3);
    o.ep = p.ep < 0 ? -1 : (p.ep ^ 56);
    return o;
}

// insufficient material exactly as C07 states it: bare kings or a single minor piece
inline bool insufficient(const Pos& p)
{
    int minors = 0;
    for (int s = 0; s < 64; ++s)
    {
        char k = lower(p.b[s]);
        if (k == '.' || k == 'k') continue;
        if (k == 'n' || k == 'b')
            ++minors;
        else
            return false;
    }
    return minors <= 1;
}

inline uint64_t perft(const Pos& p, int d)
{
    if (d == 0) return 1;
    std::vector<Mv> ms;
    gen_legal(p, ms);
    if (d == 1) return ms.size();
    uint64_t n = 0;
    Pos t;
    for (const Mv& m : ms)
    {
        make(p, m, t);
        n += perft(t, d - 1);
    }
    return n;
}

// AND/OR mate solver: can side to move force mate within `moves` of its own moves?
inline bool can_mate_in(const Pos& p, int moves);
inline bool gets_mated_in(const Pos& p, int moves)
{
    // side to move cannot avoid being mated within `moves` moves of the opponent
    std::vector<Mv> ms;
    gen_legal(p, ms);
    if (ms.empty()) return in_check(p, p.stm);  // already mated (0 more moves needed)
    if (moves <= 0) return false;
    Pos t;
    for (const Mv& m : ms)
    {
        make(p, m, t);
        if (!can_mate_in(t, moves)) return false;
    }
    return true;
}
inline bool can_mate_in(const Pos& p, int moves)
{
    if (moves <= 0) return false;
    std::vector<Mv> ms;
    gen_legal(p, ms);
    Pos t;
    for (const Mv& m : ms)
    {
        make(p, m, t);
        if (gets_mated_in(t, moves - 1)) return true;
    }
    return false;
}

inline bool is_mate(const Pos& p)
{
    std::vector<Mv> ms;
    gen_legal(p, ms);
    return ms.empty() && in_check(p, p.stm);
}

}  // namespace ref

#endif
