// bookmc — C19: Polyglot book reader over exhaustively enumerated small books
//   bookmc --mode files|decode|sample --tier quick|thorough --shard i/n --tmp dir --out f.json
#include "mc_common.h"
#include "refchess.h"

#include "endgame.h"
#include "movegen.h"
#include "polyglot.h"
#include "position.h"
#include "zobrist_hash.h"

#include <cmath>
#include <fstream>
#include <random>
#include <unistd.h>

using namespace engine;
static mc::Result R;
static std::string TMPDIR;

struct Rec
{
    uint64_t key;
    uint16_t code;
    uint16_t weight;
};

static std::string bytes_of(const Rec& r)
{
    std::string s(16, '\0');
    for (int i = 0; i < 8; ++i) s[i] = char((r.key >> (56 - 8 * i)) & 0xFF);
    s[8] = char(r.code >> 8);
    s[9] = char(r.code & 0xFF);
    s[10] = char(r.weight >> 8);
    s[11] = char(r.weight & 0xFF);
    // learn field: recognisable filler
    s[12] = char(0xA5);
    s[13] = char(0x5A);
    s[14] = char(0xC3);
    s[15] = char(0x3C);
    return s;
}

static uint16_t code_of(int from, int to, int promo)
{
    return uint16_t((promo << 12) | ((from >> 3) << 9) | ((from & 7) << 6) | ((to >> 3) << 3) | (to & 7));
}

static std::string write_file(const std::string& content, const char* tag)
{
    std::string path = TMPDIR + "/" + tag + "-" + std::to_string(getpid()) + ".bin";
    std::ofstream f(path, std::ios::binary | std::ios::trunc);
    f.write(content.data(), content.size());
    f.close();
    return path;
}

// direct view of the loaded table when the member is reachable (compiled with -fno-access-control);
// falls back to the public API only if the class is refactored
template <class T>
static auto table_of(const T& b, int) -> decltype(&b._hashmap)
{
    return &b._hashmap;
}
template <class T>
static const std::map<uint64_t, std::vector<std::pair<Move, int>>>* table_of(const T&, long)
{
    return nullptr;
}

static Move expected_move(uint16_t code, const Position& pos)
{
    int to = (code & 7) | (((code >> 3) & 7) << 3);
    int from = ((code >> 6) & 7) | (((code >> 9) & 7) << 3);
    int promo = (code >> 12) & 7;
    Piece pc = pos.piece_at(Square(from));
    if (pc == W_KING && from == SQ_E1 && (to == SQ_H1 || to == SQ_G1)) return create_castling(KING_CASTLING);
    if (pc == W_KING && from == SQ_E1 && (to == SQ_A1 || to == SQ_C1)) return create_castling(QUEEN_CASTLING);
    if (pc == B_KING && from == SQ_E8 && (to == SQ_H8 || to == SQ_G8)) return create_castling(KING_CASTLING);
    if (pc == B_KING && from == SQ_E8 && (to == SQ_A8 || to == SQ_C8)) return create_castling(QUEEN_CASTLING);
    static const PieceKind PK[5] = {NO_PIECE_KIND, KNIGHT, BISHOP, ROOK, QUEEN};
    if (promo == 0) return create_move(Square(from), Square(to));
    return create_promotion(Square(from), Square(to), PK[promo]);
}

// ---------------------------------------------------------------------------------- files
static void mode_files(bool quick, int shard, int nsh)
{
    const uint64_t K1 = 0x463B96181691FC9CULL, K2 = 0x0123456789ABCDEFULL;
    std::vector<Rec> alpha = {
        {K1, code_of(12, 28, 0), 1},      // e2e4
        {K1, code_of(11, 27, 0), 5},      // d2d4
        {K1, code_of(6, 21, 0), 0},       // g1f3 weight 0
        {K2, code_of(4, 7, 0), 65535},    // e1h1
        {K2, code_of(52, 60, 4), 2},      // e7e8q
        {K1, code_of(12, 28, 0), 1},      // same as first (a true duplicate inside the file is legal)
    };
    Position startpos;
    mc::Subspace sub;
    sub.name = "book files";
    sub.bound = "every file of 0..3 records over a 6-record alphabet x every truncation length 0..48 bytes";
    int maxrec = 3;
    (void)quick;
    std::vector<std::vector<int>> seqs{{}};
    for (int n = 1; n <= maxrec; ++n)
    {
        size_t start = seqs.size();
        (void)start;
        std::vector<std::vector<int>> add;
        for (auto& s : seqs)
            if (int(s.size()) == n - 1)
                for (int a = 0; a < int(alpha.size()); ++a)
                {
                    auto t = s;
                    t.push_back(a);
                    add.push_back(t);
                }
        seqs.insert(seqs.end(), add.begin(), add.end());
    }
    int idx = 0;
    for (auto& seq : seqs)
    {
        if ((idx++ % nsh) != shard) continue;
        std::string full;
        for (int a : seq) full += bytes_of(alpha[a]);
        for (size_t len = 0; len <= full.size(); ++len)
        {
            if (len < full.size() && len + 16 < full.size()) continue;  // truncate only inside the last record
            std::string content = full.substr(0, len);
            std::string path = write_file(content, "files");
            // reference parse: complete records only
            std::map<uint64_t, std::vector<std::pair<uint16_t, int>>> refmap;
            size_t ncomplete = len / 16;
            for (size_t i = 0; i < ncomplete; ++i)
            {
                const Rec& r = alpha[seq[i]];
                refmap[r.key].push_back({r.code, r.weight});
            }
            PolyglotBook book(path, 12345);
            sub.states++;
            std::string desc;
            for (int a : seq) desc += std::to_string(a);
            auto w = [&]() { return mc::JObj().s("records", desc).n("file_bytes", (long long)len).n("complete_records", (long long)ncomplete); };
            std::string tcls = len % 16 ? ":truncated_tail" : (len == 0 ? ":empty_file" : ":whole_records");
            // public API: contains
            for (uint64_t k : {K1, K2})
            {
                bool want = refmap.count(k) > 0;
                if (book.contains(k) != want) R.violation(std::string("C19:contains:") + (want ? "record_dropped" : "record_invented") + tcls, w().u("key", k));
            }
            // key a partially overwritten buffer would form
            if (len % 16 && ncomplete >= 1)
            {
                std::string buf = bytes_of(alpha[seq[ncomplete - 1]]);
                std::string tail = content.substr(ncomplete * 16);
                for (size_t i = 0; i < tail.size(); ++i) buf[i] = tail[i];
                uint64_t bogus = 0;
                for (int i = 0; i < 8; ++i) bogus = (bogus << 8) | (unsigned char)buf[i];
                if (!refmap.count(bogus) && book.contains(bogus)) R.violation("C19:contains:record_invented:truncated_tail", w().u("key", bogus));
            }
            // direct table comparison
            if (auto* tab = table_of(book, 0))
            {
                R.count("direct_table_comparisons");
                size_t nref = 0, neng = 0;
                for (auto& kv : refmap) nref += kv.second.size();
                for (auto& kv : *tab) neng += kv.second.size();
                if (neng != nref)
                {
                    std::string c = neng > nref ? "C19:table:more_records_than_file" : "C19:table:fewer_records_than_file";
                    R.violation(c + tcls, w().n("engine_records", (long long)neng));
                }
                else
                {
                    for (auto& kv : refmap)
                    {
                        auto it = tab->find(kv.first);
                        if (it == tab->end() || it->second.size() != kv.second.size())
                        {
                            R.violation("C19:table:key_mismatch" + tcls, w().u("key", kv.first));
                            continue;
                        }
                        for (size_t i = 0; i < kv.second.size(); ++i)
                            if (int(it->second[i].second) != int(kv.second[i].second))
                                R.violation("C19:table:weight_mismatch" + tcls, w().u("key", kv.first));
                    }
                }
            }
            // best move: one of maximal weight, decoded
            for (auto& kv : refmap)
            {
                if (!book.contains(kv.first)) continue;
                int best = -1;
                for (auto& cw : kv.second) best = std::max(best, cw.second);
                Move m = book.get_best_move(kv.first, startpos);
                bool ok = false;
                for (auto& cw : kv.second)
                    if (cw.second == best && expected_move(cw.first, startpos) == m) ok = true;
                sub.transitions++;
                if (!ok) R.violation("C19:best_not_maximal" + tcls, w().u("key", kv.first).s("move", startpos.uci(m)));
            }
            R.outcome(std::to_string(ncomplete) + tcls);
            if (sub.states == 50) R.sample(w().str());
            unlink(path.c_str());
        }
    }
    sub.exhaustive = true;
    R.subspaces.push_back(sub);
}

// ---------------------------------------------------------------------------------- decode
static void mode_decode()
{
    mc::Subspace sub;
    sub.name = "move decoding";
    sub.bound = "all 65536 move codes (promotion field 0..4 checked, 5..7 outside the format) x 4 positions (king / rook on e1, e8); 8 castling codes x 16 rights subsets x side to move";
    std::string content;
    for (int code = 0; code < 65536; ++code) content += bytes_of(Rec{uint64_t(code) + 1, uint16_t(code), 1});
    std::string path = write_file(content, "decode");
    PolyglotBook book(path, 1);
    const char* fens[] = {
        "r3k2r/8/8/8/8/8/8/R3K2R w KQkq - 0 1",   // kings on e1/e8
        "4r2k/8/8/8/8/8/8/4R2K w - - 0 1",         // rooks on e1/e8
        "4q3/8/8/8/8/8/8/4Q1Kk w - - 0 1",         // queens on e1/e8
        "8/8/8/8/8/8/8/K6k w - - 0 1",             // e1/e8 empty
    };
    for (const char* f : fens)
    {
        Position pos{std::string(f)};
        for (int code = 0; code < 65536; ++code)
        {
            int promo = (code >> 12) & 7;
            if (promo > 4 || (code >> 15))
            {
                R.count("codes_outside_format");
                continue;
            }
            uint64_t key = uint64_t(code) + 1;
            sub.states++;
            if (!book.contains(key))
            {
                R.violation("C19:decode:missing_key", mc::JObj().n("code", code));
                continue;
            }
            Move want = expected_move(uint16_t(code), pos);
            Move got = book.get_best_move(key, pos);
            Move got2 = book.get_random_move(key, pos);
            sub.transitions += 2;
            if (got != want || got2 != want)
            {
                std::string c = "C19:decode";
                c += castling(want) != NO_CASTLING ? ":castling" : promo ? ":promotion" : ":plain";
                R.violation(c, mc::JObj().n("code", code).s("fen", f).n("engine", got).n("engine_random", got2).n("expected", want));
            }
            if (castling(want) != NO_CASTLING) R.count("castling_decodes");
        }
    }
    // castling codes under every subset of castling rights: the move is castling whenever castling is
    // legal for the side to move (a well-formed book only holds legal moves)
    {
        std::string content2;
        int codes[8][2] = {{4, 7}, {4, 0}, {60, 63}, {60, 56}, {4, 6}, {4, 2}, {60, 62}, {60, 58}};
        for (int i = 0; i < 8; ++i) content2 += bytes_of(Rec{uint64_t(1000 + i), code_of(codes[i][0], codes[i][1], 0), 1});
        std::string path2 = write_file(content2, "decode2");
        PolyglotBook book2(path2, 1);
        for (int cr = 0; cr < 16; ++cr)
            for (int stm = 0; stm < 2; ++stm)
            {
                ref::Pos p;
                ref::parse_fen("r3k2r/8/8/8/8/8/8/R3K2R w - - 0 1", p);
                p.cr = cr;
                p.stm = stm;
                std::vector<ref::Mv> lm;
                ref::gen_legal(p, lm);
                Position pos(ref::fen(p));
                for (int i = 0; i < 8; ++i)
                {
                    bool white_code = codes[i][0] == 4;
                    if (white_code != (stm == 0)) continue;
                    bool kside = (i % 2) == 0;
                    bool legal = false;
                    for (auto& m : lm)
                        if (m.flags & (kside ? ref::F_CASTLE_K : ref::F_CASTLE_Q)) legal = true;
                    if (!legal)
                    {
                        R.count("castling_codes_not_legal_skipped");
                        continue;
                    }
                    Move want = create_castling(kside ? KING_CASTLING : QUEEN_CASTLING);
                    Move got = book2.get_best_move(uint64_t(1000 + i), pos), got2 = book2.get_random_move(uint64_t(1000 + i), pos);
                    sub.states++;
                    sub.transitions += 2;
                    R.count("castling_decodes");
                    if (got != want || got2 != want)
                        R.violation("C19:decode:castling:rights_subset", mc::JObj().s("fen", ref::fen(p)).n("from", codes[i][0]).n("to", codes[i][1]).n("engine", got).n("expected", want));
                }
            }
        unlink(path2.c_str());
    }
    R.outcome("decode");
    R.sample(mc::JObj().n("code", code_of(4, 7, 0)).s("fen", fens[0]).s("meaning", "e1h1 = white short castling").str());
    unlink(path.c_str());
    sub.exhaustive = true;
    R.subspaces.push_back(sub);
}

// ---------------------------------------------------------------------------------- sample
static void mode_sample(bool quick, int shard, int nsh)
{
    const uint64_t K = 0x463B96181691FC9CULL, OTHER = 0x1111111111111111ULL;
    int S = quick ? 8192 : 65536;
    std::vector<int> wa = {0, 1, 2, 5};
    std::vector<std::vector<int>> vecs;
    for (int n = 1; n <= 4; ++n)
    {
        int tot = 1;
        for (int i = 0; i < n; ++i) tot *= 4;
        for (int c = 0; c < tot; ++c)
        {
            std::vector<int> v;
            int x = c;
            bool nz = false;
            for (int i = 0; i < n; ++i)
            {
                v.push_back(wa[x % 4]);
                nz |= v.back() != 0;
                x /= 4;
            }
            if (nz) vecs.push_back(v);
            else R.count("all_zero_vectors_skipped");
        }
    }
    vecs.push_back({65535, 1});
    vecs.push_back({1, 65535});
    vecs.push_back({65535, 65535, 0});
    Position startpos;
    // candidate moves: distinct plain pawn moves
    int froms[4] = {8, 9, 10, 11}, tos[4] = {16, 17, 18, 19};
    mc::Subspace sub;
    sub.name = "sampling";
    sub.bound = "all weight vectors of length 1..4 over {0,1,2,5} (not all zero) + 3 with 65535; seeds 0.." + std::to_string(S - 1) + ", first draw of each seed; 8 draws for seeds 0..255";
    int idx = 0;
    for (auto& v : vecs)
    {
        if ((idx++ % nsh) != shard) continue;
        if (R.out_of_time())
        {
            R.subspaces.push_back(sub);
            return;
        }
        std::string content, desc;
        // a record of another key before and after, so that foreign moves can show up
        content += bytes_of(Rec{OTHER, code_of(12, 28, 0), 7});
        long long sum = 0;
        for (size_t i = 0; i < v.size(); ++i)
        {
            content += bytes_of(Rec{K, code_of(froms[i], tos[i], 0), uint16_t(v[i])});
            sum += v[i];
            desc += (i ? "," : "") + std::to_string(v[i]);
        }
        // polyglot books are sorted by key: OTHER < K, fine; one more foreign key above
        content += bytes_of(Rec{0xF000000000000000ULL, code_of(6, 21, 0), 9});
        std::string path = write_file(content, "sample");
        std::vector<long long> cnt(v.size(), 0);
        long long draws = 0;
        for (int seed = 0; seed < S; ++seed)
        {
            PolyglotBook book(path, size_t(seed));
            int nd = seed < 256 ? 8 : 1;
            for (int d = 0; d < nd; ++d)
            {
                Move m = book.get_random_move(K, startpos);
                sub.states++;
                int which = -1;
                for (size_t i = 0; i < v.size(); ++i)
                    if (m == create_move(Square(froms[i]), Square(tos[i]))) which = int(i);
                auto w = [&]() { return mc::JObj().s("weights", desc).n("seed", seed).n("draw", d).s("move", startpos.uci(m)); };
                if (which < 0)
                    R.violation("C19:random:foreign_move", w());
                else if (v[which] == 0)
                    R.violation("C19:random:weight_zero_move_played", w());
                else
                    cnt[which]++;
                ++draws;
            }
        }
        // frequencies: deterministic over the enumerated seed range; 5 sigma + 2 tolerance
        for (size_t i = 0; i < v.size(); ++i)
        {
            double p = double(v[i]) / double(sum);
            double mean = draws * p, sd = std::sqrt(draws * p * (1 - p));
            sub.transitions++;
            if (std::fabs(cnt[i] - mean) > 5 * sd + 2)
            {
                bool last = i + 1 == v.size();
                R.violation(std::string("C19:random:frequency:") + (cnt[i] > mean ? "over" : "under") + (last ? ":last_record" : ":earlier_record"),
                            mc::JObj().s("weights", desc).n("index", (long long)i).n("count", cnt[i]).n("expected", (long long)mean).n("draws", draws));
            }
        }
        R.outcome(desc);
        if (idx == 20) R.sample(mc::JObj().s("weights", desc).n("draws", draws).n("count_first", cnt[0]).str());
        unlink(path.c_str());
    }
    sub.exhaustive = true;
    R.subspaces.push_back(sub);
}

int main(int argc, char** argv)
{
    std::string out, tier = "quick", mode;
    int shard = 0, nsh = 1;
    for (int i = 1; i < argc; ++i)
    {
        std::string a = argv[i];
        if (a == "--out") out = argv[++i];
        else if (a == "--tier") tier = argv[++i];
        else if (a == "--mode") mode = argv[++i];
        else if (a == "--tmp") TMPDIR = argv[++i];
        else if (a == "--deadline") R.deadline_s = atof(argv[++i]);
        else if (a == "--shard")
        {
            std::string v = argv[++i];
            shard = atoi(v.c_str());
            nsh = atoi(v.substr(v.find('/') + 1).c_str());
        }
    }
    move_bitboards::init();
    zobrist::init();
    if (mode == "files") mode_files(tier == "quick", shard, nsh);
    else if (mode == "decode") mode_decode();
    else if (mode == "sample") mode_sample(tier == "quick", shard, nsh);
    else return 2;
    return R.write(out) ? 0 : 2;
}
