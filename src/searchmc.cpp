// searchmc — sessions on the real Uci::loop: C05 (one legal bestmove), C08 (mates), C09 (limits)
//   searchmc --prop C05|C08|C09 --list <name> --tier quick|thorough --shard i/n --out f.json
//   searchmc --prop Cxx --replay '<spec json-ish>' --out f.json      (one session)
#include "mc_common.h"
#include "refchess.h"
#include "spaces.h"
#include "uci_session.h"

#include <set>
#include <sys/stat.h>
#include <unordered_map>

using namespace engine;
static mc::Result R;
static std::string PROP, TIER = "quick";
static int SHARD = 0, NSH = 1;
static Uci* g_uci;
static uint64_t g_run_index = 0;
static bool g_inproc = false;
static int g_any_every = -1;  // mates list: every n-th placement without mate in one (-1 = tier default, 0 = none)
static int g_m1_every = 1;   // mates list: take every n-th mate-in-one placement (1 = all)
static bool g_castle_mates = false;  // mates list: only placements where a castling move delivers mate

static bool mine()
{
    return int(g_run_index++ % uint64_t(NSH)) == SHARD;
}

// ------------------------------------------------------------------------------ mate solver with memo
static std::unordered_map<std::string, int> g_memo;  // key -> best known: +n proven mate within n, -(n) proven no mate within n
static uint64_t g_solver_nodes = 0, g_solver_budget = 0;   // per top-level call; 0 = unlimited
static bool g_solver_aborted = false;
static bool memo_can_mate_in(const ref::Pos& p, int moves);
static bool memo_gets_mated_in(const ref::Pos& p, int moves)
{
    if (g_solver_aborted) return false;
    if (g_solver_budget && ++g_solver_nodes > g_solver_budget)
    {
        g_solver_aborted = true;
        return false;
    }
    std::vector<ref::Mv> ms;
    ref::gen_legal(p, ms);
    if (ms.empty()) return ref::in_check(p, p.stm);
    if (moves <= 0) return false;
    ref::Pos t;
    for (auto& m : ms)
    {
        ref::make(p, m, t);
        if (!memo_can_mate_in(t, moves)) return false;
    }
    return true;
}
static bool memo_can_mate_in(const ref::Pos& p, int moves)
{
    if (moves <= 0) return false;
    std::string key = ref::identity(p);
    auto it = g_memo.find(key);
    if (it != g_memo.end())
    {
        if (it->second > 0 && it->second <= moves) return true;
        if (it->second < 0 && -it->second >= moves) return false;
    }
    std::vector<ref::Mv> ms;
    ref::gen_legal(p, ms);
    ref::Pos t;
    bool res = false;
    for (auto& m : ms)
    {
        ref::make(p, m, t);
        if (memo_gets_mated_in(t, moves - 1))
        {
            res = true;
            break;
        }
    }
    if (g_solver_aborted) return false;   // an aborted search proves nothing: do not memoise
    if (g_memo.size() < 4000000) g_memo[key] = res ? moves : -moves;
    return res;
}

// ------------------------------------------------------------------------------ session description
struct Session
{
    std::string root_fen;              // position searched by the LAST go
    std::vector<std::string> lines;    // full script
    std::vector<std::string> searchmoves;  // of the last go
    int depth_limit = 0;               // of the last go (0 = none)
    bool finite = true;                // last go has a finite limit (must terminate by itself)
    sess::Spec spec;
    std::string label;
};

static std::string spec_json(const Session& s)
{
    std::vector<std::string> ls;
    for (auto& l : s.lines) ls.push_back(l);
    mc::JObj o;
    o.raw("script", mc::jlist(ls, true)).s("root_fen", s.root_fen).n("stop_at", s.spec.stop_at).n("stop_at_first", s.spec.stop_at_first)
        .n("clock_step_ms", s.spec.clock_step_ms).n("horizon", s.spec.horizon).n("depth_limit", s.depth_limit).b("finite", s.finite).s("label", s.label);
    if (!s.searchmoves.empty()) o.raw("searchmoves", mc::jlist(s.searchmoves, true));
    if (s.spec.poison.active)
        o.raw("poison", mc::JObj().u("key", s.spec.poison.key).n("score", s.spec.poison.score).n("depth", s.spec.poison.depth)
                            .n("flag", s.spec.poison.flag).n("move", s.spec.poison.move).n("at_line", s.spec.poison.at_line).str());
    return o.str();
}

static int solver_cap() { return TIER == "quick" ? 3 : 4; }

// evaluates the oracles of PROP on one finished session; returns the outcome for callers
static sess::Outcome run_and_check(Session& s, bool check = true)
{
    s.spec.lines = s.lines;
    auto t_begin = std::chrono::high_resolution_clock::now();
    sess::Outcome o = g_inproc ? sess::run_inproc(*g_uci, s.spec) : sess::run(*g_uci, s.spec);
    double dt = std::chrono::duration<double>(std::chrono::high_resolution_clock::now() - t_begin).count();
    if (dt > 3.0 && getenv("VERIF_SLOW")) fprintf(stderr, "SLOW %.1fs visits=%lld %s\n", dt, o.visits.empty() ? -1LL : o.visits.back(), spec_json(s).c_str());
    R.count("sessions");
    if (!check) return o;
    ref::Pos root;
    ref::parse_fen(s.root_fen, root);
    sess::Parsed p = sess::parse_output(o.output, true);
    auto w = [&]() {
        mc::JObj j;
        j.raw("session", spec_json(s));
        if (!p.bestmoves.empty()) j.s("bestmove", p.bestmoves[0]);
        if (!p.infos.empty()) j.s("last_info", p.infos.back().raw);
        if (o.crashed) j.s("stderr", o.stderr_tail).n("status", o.exit_status);
        return j;
    };
    std::string stopcls = s.spec.stop_at >= 0 ? ":stopped" : s.spec.stop_at < -1 ? ":stopped_before_search_loop" : "";
    if (s.spec.poison.active) stopcls += ":poisoned";
    if (o.crashed)
    {
        std::string what = "crash";
        if (o.stderr_tail.find("AddressSanitizer") != std::string::npos) what = "asan";
        else if (o.stderr_tail.find("runtime error") != std::string::npos) what = "bounds";
        size_t at = o.stderr_tail.find("engine/");
        std::string where = at == std::string::npos ? "" : o.stderr_tail.substr(at, o.stderr_tail.find_first_of(" \n:", at + 7 + 1) == std::string::npos ? 30 : 0);
        if (at != std::string::npos)
        {
            size_t e = o.stderr_tail.find_first_of(" \n", at);
            where = o.stderr_tail.substr(at, e - at);
            size_t c2 = where.find(':', where.find(':') + 1);
            if (c2 != std::string::npos) where = where.substr(0, c2);
        }
        R.violation(PROP + ":" + what + ":" + where + (s.depth_limit > 40 ? ":depth_above_40" : ""), w());
        return o;
    }
    if (o.horizon_hit)
    {
        if (PROP == "C09" && s.finite) R.violation("C09:no_termination_within_horizon", w());
        else if (PROP == "C05" && s.finite) R.violation("C05:no_answer_within_horizon" + stopcls, w());
        return o;
    }
    // one bestmove line per `go` over the WHOLE session: `p` only holds what follows the last-but-one bestmove,
    // so a `go` answered twice would otherwise look like two well-behaved searches
    if (PROP == "C05" || PROP == "C09")
    {
        sess::Parsed all = sess::parse_output(o.output, false);
        size_t n_go = 0;
        for (auto& l : s.lines)
            if (l.rfind("go", 0) == 0) ++n_go;
        if (all.bestmoves.size() != n_go)
        {
            R.violation(PROP + ":bestmove_lines_" + std::to_string(all.bestmoves.size()) + "_for_" + std::to_string(n_go) + "_go_commands" + stopcls, w().n("bestmove_lines", (long long)all.bestmoves.size()));
            return o;
        }
    }
    // ---- C05 oracle (shared)
    bool legal_best = false;
    ref::Mv bm;
    if (p.bestmoves.size() == 1) legal_best = sess::find_move(root, p.bestmoves[0], bm);
    if (PROP == "C05")
    {
        if (p.bestmoves.size() != 1)
            R.violation("C05:bestmove_count_" + std::to_string(p.bestmoves.size()) + stopcls, w());
        else if (!legal_best)
        {
            long long visits = o.visits.empty() ? -1 : o.visits.back();
            bool before_iter1 = p.infos.empty();
            R.violation("C05:illegal_bestmove:" + p.bestmoves[0] + (before_iter1 ? ":no_iteration_completed" : ":after_completed_iteration") + stopcls, w().n("visits", visits));
        }
        else if (!s.searchmoves.empty() && std::find(s.searchmoves.begin(), s.searchmoves.end(), p.bestmoves[0]) == s.searchmoves.end())
            R.violation("C05:bestmove_outside_searchmoves" + stopcls, w());
        for (auto& il : p.infos)
        {
            std::string bad;
            R.count("pv_lines");
            if (!sess::pv_legal(root, il.pv, &bad))
            {
                R.violation("C05:illegal_pv" + stopcls, w().s("pv_line", il.raw).s("bad_move", bad));
                break;
            }
        }
        R.outcome((p.bestmoves.empty() ? std::string("none") : p.bestmoves[0]) + "/" + std::to_string(p.infos.size()));
    }
    else if (PROP == "C09")
    {
        int expect = 1;
        bool ok = true;
        for (auto& il : p.infos)
        {
            if (il.depth != expect) ok = false;
            ++expect;
        }
        int m = int(p.infos.size());
        if (!ok) R.violation("C09:iteration_sequence_not_consecutive", w());
        if (s.depth_limit > 0 && m > s.depth_limit) R.violation("C09:deeper_than_limit", w().n("iterations", m));
        if (p.bestmoves.size() == 1 && !s.searchmoves.empty() &&
            std::find(s.searchmoves.begin(), s.searchmoves.end(), p.bestmoves[0]) == s.searchmoves.end())
            R.violation("C09:bestmove_outside_searchmoves", w());
        if (p.bestmoves.size() != 1) R.violation("C09:bestmove_count_" + std::to_string(p.bestmoves.size()), w());
        R.outcome(std::to_string(m) + "/" + std::to_string(s.depth_limit) + (s.searchmoves.empty() ? "" : "s"));
    }
    else if (PROP == "C08")
    {
        // (a) mate in one must be played
        if (s.label.rfind("m1", 0) == 0 && p.bestmoves.size() == 1 && s.spec.stop_at == -1)
        {
            bool mates = false;
            if (legal_best)
            {
                ref::Pos t;
                ref::make(root, bm, t);
                mates = ref::is_mate(t);
            }
            R.count("mate_in_one_searches");
            if (!mates)
            {
                std::string hist = s.label.find("after_stopped") != std::string::npos ? ":after_stopped_search"
                                   : s.label.find("warm_after_searchmoves") != std::string::npos ? ":after_searchmoves_restricted_search"
                                   : s.label.find("warm") != std::string::npos ? ":warm_table" : ":fresh_table";
                if (s.label.find("clock99") != std::string::npos) hist += ":halfmove_clock_99";
                R.violation("C08:mate_in_one_not_played" + hist, w());
            }
        }
        // (b) final mate announcement must be true
        if (!p.infos.empty() && p.infos.back().is_mate && s.spec.stop_at == -1)
        {
            long long y = p.infos.back().score;
            R.count("mate_announcements");
            if (y == 0)
                R.violation("C08:mate_0_announced", w());
            else
            {
                int cap = solver_cap();
                int mvs = int(std::min<long long>(std::llabs(y), cap));
                g_solver_nodes = 0;
                g_solver_budget = 1500000;   // bounded effort per announcement
                g_solver_aborted = false;
                bool truth = y > 0 ? memo_can_mate_in(root, mvs) : memo_gets_mated_in(root, mvs);
                g_solver_budget = 0;
                if (g_solver_aborted)
                {
                    g_solver_aborted = false;
                    R.count("mate_announcements_unverified_solver_budget");
                }
                else if (truth)
                    R.count("mate_announcements_verified");
                else if (std::llabs(y) <= cap)
                    R.violation(std::string("C08:false_mate_announcement:") + (y > 0 ? "winning" : "losing"), w().n("announced", y));
                else
                    R.count("mate_announcements_unverified_above_cap");
            }
            R.outcome("mate" + std::to_string(y));
        }
        else
            R.outcome(p.infos.empty() ? "noinfo" : "cp");
    }
    return o;
}

// ------------------------------------------------------------------------------ lists
struct SeedPos
{
    const char* name;
    const char* fen;
    int cls;  // 0 tiny, 1 medium, 2 big
};
static const SeedPos SEEDS[] = {
    {"kpk", "8/8/8/3k4/8/3K4/3P4/8 w - - 0 1", 0},
    {"mate1_castle", "6k1/5ppp/8/8/8/8/8/R3K3 w Q - 0 1", 0},
    {"mate1_kqk", "7k/8/5K2/6Q1/8/8/8/8 w - - 0 1", 0},
    {"single_move", "7k/5K2/8/6Q1/8/8/8/8 b - - 0 1", 0},
    {"false_mate0", "Q7/8/K3n3/8/3k4/8/8/8 w - - 0 1", 0},
    {"castle_bare", "r3k2r/8/8/8/8/8/8/R3K2R w KQkq - 0 1", 1},
    {"ep", "8/8/8/2k5/3Pp3/8/8/4K3 b - d3 0 1", 0},
    {"promo", "8/P7/8/8/8/8/8/k1K5 w - - 0 1", 0},
    {"double_check", "4k3/8/8/8/8/5n2/4r3/4K3 w - - 0 1", 0},
    {"kbk_draw", "8/8/8/3k4/8/3K4/3B4/8 w - - 0 1", 0},
    {"krk", "8/8/8/3k4/8/8/3K4/R7 w - - 0 1", 0},
    {"two_moves", "k7/8/1K6/8/8/8/8/7B b - - 0 1", 0},
    {"kbkn_capture_draws", "4n3/4B3/5k2/8/8/8/3K4/8 b - - 0 1", 0},
    {"knkb_capture_draws", "8/3k4/8/8/8/5K2/4b3/4N3 w - - 0 1", 0},
    {"krkr", "8/8/8/3k4/8/8/3K4/R6r w - - 0 1", 0},
    {"kqkq", "8/8/8/3k4/8/8/3K4/Q6q w - - 0 1", 0},
    {"rule50_edge", "8/8/8/3k4/8/3K4/3P4/R7 w - - 98 70", 0},
    {"prop_c17", "r3kbnr/2p3p1/bp2P3/p3pp2/7p/2P4Q/PP1KPPPP/R4BNR b q - 0 1", 2},
    {"startpos", "rnbqkbnr/pppppppp/8/8/8/8/PPPPPPPP/RNBQKBNR w KQkq - 0 1", 2},
    {"kiwipete", "r3k2r/p1ppqpb1/bn2pnp1/3PN3/1p2P3/2N2Q1p/PPPBBPPP/R3K2R w KQkq - 0 1", 2},
    {"moves218", "R6R/3Q4/1Q4Q1/4Q3/2Q4Q/Q4Q2/pp1Q4/kBNN1KB1 w - - 0 1", 2},
};

static std::vector<std::string> legal_ucis(const std::string& fen)
{
    ref::Pos p;
    ref::parse_fen(fen, p);
    std::vector<ref::Mv> ms;
    ref::gen_legal(p, ms);
    std::vector<std::string> v;
    for (auto& m : ms) v.push_back(ref::uci(m));
    return v;
}

static Session base(const std::string& fen, const std::string& go, const std::string& label)
{
    Session s;
    s.root_fen = fen;
    s.lines = {"position fen " + fen, go};
    s.label = label;
    std::istringstream is(go);
    std::string t;
    while (is >> t)
    {
        if (t == "depth") is >> s.depth_limit;
        if (t == "infinite") s.finite = false;
        if (t == "searchmoves")
            while (is >> t) s.searchmoves.push_back(t);
    }
    return s;
}

// searchmoves variants for a position
static std::vector<std::string> sm_variants(const std::string& fen, bool all_subsets)
{
    std::vector<std::string> ms = legal_ucis(fen), out{""};
    int n = int(ms.size());
    if (all_subsets && n <= 6)
    {
        for (int mask = 1; mask < (1 << n); ++mask)
        {
            std::string s = " searchmoves";
            for (int i = 0; i < n; ++i)
                if (mask & (1 << i)) s += " " + ms[i];
            out.push_back(s);
        }
        return out;
    }
    for (int i = 0; i < n && i < (all_subsets ? n : 3); ++i) out.push_back(" searchmoves " + ms[i]);
    for (int i = 0; i + 1 < n && i < (all_subsets ? n - 1 : 1); ++i) out.push_back(" searchmoves " + ms[i] + " " + ms[i + 1]);
    return out;
}

static void list_limits()
{
    mc::Subspace sub;
    sub.name = "limits";
    sub.bound = "seed positions x go-limit alphabet (depth, nodes, movetime, clocks incl. zero/negative, default) x searchmoves {none, singletons(<=3), first pair}; virtual clock +25 ms/read for time limits";
    bool q = TIER == "quick";
    for (auto& sp : SEEDS)
    {
        std::vector<std::string> gos;
        std::vector<int> clock;
        auto add = [&](const std::string& g, int step) {
            gos.push_back(g);
            clock.push_back(step);
        };
        int maxd = sp.cls == 0 ? (q ? 4 : 6) : sp.cls == 1 ? (q ? 2 : 4) : (q ? 1 : 2);
        for (int d = 1; d <= maxd; ++d) add("go depth " + std::to_string(d), 0);
        if (sp.cls == 0)
        {
            for (const char* n : {"1", "4095", "4096", "4097"}) add(std::string("go nodes ") + n, 0);
            add("go", 0);
            add("go wtime 0 btime 0", 0);
        }
        // virtual clock: +25 ms per read, so a 500 ms budget (single root move) ends after 20 polls
        for (const char* t : {"1", "-5", "20"}) add(std::string("go movetime ") + t, 25);
        for (const char* t : {"1", "-100", "300"})
            for (const char* extra : {"", " winc 100 binc 100", " movestogo 1", " movestogo 40 winc 1000 binc 1000"})
                add(std::string("go wtime ") + t + " btime " + t + extra, 25);
        add("go depth 2 movetime 1", 25);
        for (size_t gi = 0; gi < gos.size(); ++gi)
            for (auto& sm : sm_variants(sp.fen, false))
            {
                if (!mine()) continue;
                if (R.out_of_time()) goto done;
                Session s = base(sp.fen, gos[gi] + sm, std::string("limits:") + sp.name);
                s.spec.clock_step_ms = clock[gi];
                s.spec.horizon = 20000000;
                run_and_check(s);
                sub.states++;
                if (sub.states == 3) R.sample(spec_json(s));
            }
    }
    sub.exhaustive = true;
done:
    sub.transitions = sub.states;
    R.subspaces.push_back(sub);
}

// C05: opening book configured. `go` must still be answered by exactly one legal bestmove, whether the book
// contains the position (one record, two records) or not, for both sampling policies and every kind of limit.
static std::string g_book_dir, g_book_path;   // book files stay on disk (a few bytes each) so that a recorded session replays
static void write_book(const std::vector<std::pair<uint64_t, std::pair<ref::Mv, int>>>& recs)
{
    FILE* f = fopen(g_book_path.c_str(), "wb");
    if (!f) exit(2);
    for (auto& r : recs)
    {
        unsigned char b[16] = {0};
        for (int i = 0; i < 8; ++i) b[i] = (unsigned char)(r.first >> (56 - 8 * i));
        unsigned mv = unsigned(r.second.first.to % 8) | unsigned(r.second.first.to / 8) << 3 | unsigned(r.second.first.from % 8) << 6 | unsigned(r.second.first.from / 8) << 9;
        b[8] = (unsigned char)(mv >> 8);
        b[9] = (unsigned char)(mv & 0xFF);
        b[10] = (unsigned char)(r.second.second >> 8);
        b[11] = (unsigned char)(r.second.second & 0xFF);
        fwrite(b, 1, 16, f);
    }
    fclose(f);
}

static void list_book()
{
    mc::Subspace sub;
    sub.name = "opening book configured";
    sub.bound = "seed positions x book {one record for the position, two records, a record for another key only} x Polyglot Sample {random, best} x go {depth 1, depth 3, movetime 1, clock, default}";
    for (auto& sp : SEEDS)
    {
        if (sp.cls == 2) continue;
        ref::Pos root;
        if (!ref::parse_fen(sp.fen, root)) continue;
        std::vector<ref::Mv> lm, plain;
        ref::gen_legal(root, lm);
        for (auto& m : lm)
            if (!(m.flags & (ref::F_CASTLE_K | ref::F_CASTLE_Q)) && !m.promo) plain.push_back(m);
        if (plain.empty()) continue;
        uint64_t key = PolyglotBook::hash(Position(std::string(sp.fen)));
        for (int book = 0; book < 3; ++book)
            for (const char* policy : {"random", "best"})
                for (const char* go : {"go depth 1", "go depth 3", "go movetime 1", "go wtime 300 btime 300", "go"})
                {
                    if (!mine()) continue;
                    if (R.out_of_time()) goto done;
                    std::vector<std::pair<uint64_t, std::pair<ref::Mv, int>>> recs;
                    if (book == 0) recs.push_back({key, {plain.front(), 1}});
                    if (book == 1)
                    {
                        // records must be sorted by key; equal keys here
                        recs.push_back({key, {plain.front(), 1}});
                        recs.push_back({key, {plain.back(), 3}});
                    }
                    if (book == 2) recs.push_back({key ^ 1, {plain.front(), 1}});
                    g_book_path = g_book_dir + "/" + sp.name + "-" + std::to_string(book) + ".bin";
                    write_book(recs);
                    Session s = base(sp.fen, go, std::string("book:") + (book == 0 ? "hit1" : book == 1 ? "hit2" : "miss") + ":" + policy + ":" + sp.name);
                    s.lines.insert(s.lines.begin(), std::string("setoption name Polyglot Sample value ") + policy);
                    s.lines.insert(s.lines.begin(), "setoption name Polyglot Book value " + g_book_path);
                    bool timed = std::string(go).find("time") != std::string::npos || std::string(go) == "go";
                    s.spec.clock_step_ms = timed ? 25 : 0;
                    s.spec.horizon = 20000000;
                    if (std::string(go) == "go") s.finite = true;
                    sess::Outcome o = run_and_check(s);
                    sess::Parsed p = sess::parse_output(o.output, false);
                    if (book != 2)
                    {
                        R.count("book_hit_sessions");
                        if (p.bestmoves.size() == 1 && (p.bestmoves[0] == ref::uci(plain.front()) || (book == 1 && p.bestmoves[0] == ref::uci(plain.back())))) R.count("book_move_played");
                    }
                    else
                        R.count("book_miss_sessions");
                    sub.states++;
                    if (sub.states == 2) R.sample(spec_json(s));
                }
    }
    sub.exhaustive = true;
done:
    sub.transitions = sub.states;
    R.subspaces.push_back(sub);
}

// every stop point k in [0, N] of a search
static void list_stops()
{
    mc::Subspace sub;
    sub.name = "early stop";
    bool q = TIER == "quick";
    long long cap = q ? 900 : 12000;
    sub.bound = "for each (position, go) whose un-stopped search makes N <= " + std::to_string(cap) + " node visits: Search::stop() injected at visit k for EVERY k in [0, N], and before go() / on its entry / after its initialisation";
    struct G
    {
        const char* go;
    };
    std::vector<std::string> gos = {"go depth 1", "go depth 2", "go depth 3", "go depth 4", "go infinite", "go depth 3 searchmoves @0 @1",
                                    "go depth 3 searchmoves @last", "go depth 3 searchmoves @castle"};
    for (auto& sp : SEEDS)
    {
        if (sp.cls == 2 && std::string(sp.name) != "startpos") continue;
        for (auto g : gos)
        {
            std::vector<std::string> ms = legal_ucis(sp.fen);
            if (g.find("@last") != std::string::npos)
            {
                // the last two legal moves: a fallback that forgets the restriction would pick the first one
                if (ms.size() < 3) continue;
                g = "go depth 3 searchmoves " + ms[ms.size() - 1] + " " + ms[ms.size() - 2];
            }
            else if (g.find("@castle") != std::string::npos)
            {
                // castling is encoded relative to the side to move: an answer printed from a position
                // that was not restored shows up as e8g8 for White
                std::string c;
                for (auto& m : ms)
                    if (m == "e1g1" || m == "e1c1" || m == "e8g8" || m == "e8c8")
                    {
                        ref::Pos rp;
                        ref::parse_fen(sp.fen, rp);
                        if (ref::lower(rp.b[(m[0] - 'a') + 8 * (m[1] - '1')]) == 'k') c += " " + m;
                    }
                if (c.empty()) continue;
                g = "go depth 3 searchmoves" + c;
            }
            else if (g.find('@') != std::string::npos)
            {
                if (ms.size() < 2) continue;
                g = "go depth 3 searchmoves " + ms[0] + " " + ms[1];
            }
            bool infinite = g == "go infinite";
            // dry run (every shard does it: deterministic thanks to seeded keys)
            Session dry = base(sp.fen, infinite ? std::string("go depth 3") : g, "dry");
            sess::Outcome o = run_and_check(dry, false);
            long long N = o.visits.empty() ? 0 : o.visits.back();
            if (o.crashed || N > cap) continue;
            R.count("stop_families");
            for (long long k = -4; k <= N; ++k)
            {
                if (k == -1) continue;   // -2,-3,-4: before go(), on its entry, after its initialisation
                if (!mine()) continue;
                if (R.out_of_time()) goto done;
                Session s = base(sp.fen, g, std::string("stop:") + sp.name);
                s.spec.stop_at = k;
                s.finite = true;  // a stop was delivered: an answer is due
                run_and_check(s);
                sub.states++;
                if (sub.states == 5) R.sample(spec_json(s));
            }
        }
    }
    sub.exhaustive = true;
done:
    sub.transitions = sub.states;
    R.subspaces.push_back(sub);
}

// A then B on the same table, with / without ucinewgame, and A stopped at k then B
static void list_history()
{
    mc::Subspace sub;
    sub.name = "session history";
    sub.bound = "consecutive positions of short games searched in one session (with / without ucinewgame between); first search stopped at every k (N <= cap), then the next go";
    bool q = TIER == "quick";
    long long cap = q ? 250 : 4000;
    struct Game
    {
        const char* fen;
        std::vector<const char*> moves;
    };
    std::vector<Game> games = {
        {"6k1/5ppp/8/8/8/8/8/R3K3 w Q - 0 1", {"e1d2", "g8f8", "a1a7"}},
        {"8/8/8/3k4/8/3K4/3P4/8 w - - 0 1", {"d3e3", "d5e5", "d2d4"}},
        {"r3k2r/8/8/8/8/8/8/R3K2R w KQkq - 0 1", {"e1g1", "e8c8"}},
        {"7k/8/5K2/6Q1/8/8/8/8 w - - 0 1", {"g5g6"}},
        // shuffles: the searched positions have occurred before, and lines of the search repeat them
        {"8/8/8/3k4/8/8/3K4/R6r w - - 0 1", {"a1a2", "h1h2", "a2a1", "h2h1", "a1a2", "h1h2", "a2a1"}},
        {"8/8/8/3k4/8/8/3K4/Q6q w - - 0 1", {"d2e2", "d5e5", "e2d2", "e5d5", "d2e2"}},
        {"4n3/4B3/5k2/8/8/8/3K4/8 b - - 0 1", {"f6f7", "d2d3", "f7f6", "d3d2"}},
    };
    for (auto& g : games)
    {
        ref::Pos p;
        ref::parse_fen(g.fen, p);
        std::string moves;
        for (size_t i = 0; i <= g.moves.size(); ++i)
        {
            // position i: after i moves
            std::string posline = std::string("position fen ") + g.fen + (moves.empty() ? "" : " moves" + moves);
            std::string cur = ref::fen(p);
            std::vector<ref::Mv> lm;
            ref::gen_legal(p, lm);
            if (!lm.empty())
            {
                for (int dA = 1; dA <= (q ? 3 : 4); ++dA)
                    for (int dB = 1; dB <= 2; ++dB)
                        for (int mode = 0; mode < 3; ++mode)
                        {
                            // mode 0: A(cur) then B(cur) without position in between; 1: with position; 2: with ucinewgame+position
                            Session s;
                            s.root_fen = cur;
                            s.lines = {posline, "go depth " + std::to_string(dA)};
                            if (mode == 2) s.lines.push_back("ucinewgame");
                            if (mode >= 1) s.lines.push_back(posline);
                            s.lines.push_back("go depth " + std::to_string(dB));
                            s.depth_limit = dB;
                            s.label = "history";
                            // un-stopped
                            if (mine())
                            {
                                run_and_check(s);
                                sub.states++;
                            }
                            if (mode == 2) continue;
                            // first search stopped at every k
                            Session dry = s;
                            sess::Outcome o = run_and_check(dry, false);
                            long long N = o.visits.empty() ? 0 : o.visits[0];
                            if (N > cap) continue;
                            for (long long k = -4; k <= N; ++k)
                            {
                                if (k == -1) continue;
                                if (!mine()) continue;
                                if (R.out_of_time()) goto done;
                                Session t = s;
                                t.spec.stop_at_first = k;
                                t.label = "m1? history after_stopped";
                                t.label = (ref::can_mate_in(p, 1) ? std::string("m1 ") : std::string("")) + "history after_stopped";
                                run_and_check(t);
                                sub.states++;
                                if (sub.states == 7) R.sample(spec_json(t));
                            }
                        }
            }
            if (i < g.moves.size())
            {
                ref::Mv m;
                if (!sess::find_move(p, g.moves[i], m)) break;
                ref::Pos t;
                ref::make(p, m, t);
                p = t;
                moves += std::string(" ") + g.moves[i];
            }
        }
    }
    sub.exhaustive = true;
done:
    sub.transitions = sub.states;
    R.subspaces.push_back(sub);
}

// single-entry poisoning at every key the search probes at ply <= 2
static void list_poison()
{
    mc::Subspace sub;
    sub.name = "table poisoning";
    sub.bound = "for 3 positions x go depth 3: every key probed at ply<=2 x engine-producible entry alphabet (6 moves x depth{0,60} (thorough: {0,3,60}) x flag{EXACT,LOWER,UPPER} x 7 scores x epoch{current,stale})";
    bool q = TIER == "quick";
    const char* fens[] = {"8/8/8/3k4/8/3K4/3P4/8 w - - 0 1", "6k1/5ppp/8/8/8/8/8/R3K3 w Q - 0 1", "r3k2r/8/8/8/8/8/8/R3K2R w KQkq - 0 1"};
    for (const char* fen : fens)
    {
        Session dry = base(fen, "go depth 3", "dry");
        dry.spec.record_keys = true;
        sess::Outcome o = run_and_check(dry, false);
        std::map<uint64_t, std::string> keys;
        for (auto& k : o.keys) keys[k.first] = k.second;
        R.count("poison_keys", keys.size());
        size_t kc = 0;
        for (auto& kv : keys)
        {
            if (q && kc++ >= 8) break;
            ref::Pos kp;
            ref::parse_fen(kv.second, kp);
            std::vector<ref::Mv> lm;
            ref::gen_legal(kp, lm);
            std::vector<Move> moves;
            if (!lm.empty())
            {
                const ref::Mv& m0 = lm[0];
                moves.push_back((m0.flags & ref::F_CASTLE_K) ? create_castling(KING_CASTLING) : (m0.flags & ref::F_CASTLE_Q) ? create_castling(QUEEN_CASTLING)
                                : m0.promo ? create_promotion(Square(m0.from), Square(m0.to), QUEEN) : create_move(Square(m0.from), Square(m0.to)));
                moves.push_back(create_move(Square(m0.to), Square(m0.from)));          // reverse: legal elsewhere, not here
                moves.push_back(create_promotion(Square(m0.from), Square(m0.to), QUEEN));
            }
            moves.push_back(create_castling(KING_CASTLING));
            moves.push_back(create_castling(QUEEN_CASTLING));
            moves.push_back(NO_MOVE);
            const int64_t scores[] = {0, 500, -500, VALUE_MATE - 3, -(VALUE_MATE - 3), VALUE_MATE, -VALUE_MATE};
            for (Move mv : moves)
                for (int depth : {0, 3, 60})
                {
                    if (q && depth == 3) continue;
                    for (int flag = 0; flag < 3; ++flag)
                        for (int64_t sc : scores)
                            for (int stale = 0; stale < 2; ++stale)
                            {
                                if (!mine()) continue;
                                if (R.out_of_time()) goto done;
                                Session s = base(fen, "go depth 3", "poison");
                                s.spec.poison.active = true;
                                s.spec.poison.key = kv.first;
                                s.spec.poison.move = mv;
                                s.spec.poison.depth = depth;
                                s.spec.poison.flag = flag;
                                s.spec.poison.score = sc;
                                s.spec.poison.at_line = stale ? 0 : 1;
                                s.spec.horizon = 2000000;
                                run_and_check(s);
                                sub.states++;
                                if (sub.states == 11) R.sample(spec_json(s));
                            }
                }
        }
    }
    sub.exhaustive = true;
done:
    sub.transitions = sub.states;
    R.subspaces.push_back(sub);
}

// C08 (a)+(b): every position of small signatures; mate-in-one positions get table histories
static void list_mates(const std::string& sigspec)
{
    spaces::SigSpec sp;
    if (!spaces::parse_sig(sigspec, sp)) exit(2);
    mc::Subspace sub;
    sub.name = "mates sig " + sigspec;
    bool q = TIER == "quick";
    int maxd = q ? 2 : 3;
    sub.bound = std::string(g_m1_every > 1 ? "every " + std::to_string(g_m1_every) + "th" : "every") + " retro-legal placement with a mate in one (refchess): go depth 1.." + std::to_string(maxd) +
                " (and every placement with a check whose only legal reply is a pawn move) on a fresh table, after a depth-4 search of the same position, after a depth-3 search restricted by searchmoves to a non-mating move; half-move clock cycling 0/98/99; every 97th (quick) / 16th placement without mate in one for announcements";
    uint64_t idx = 0;
    bool done = spaces::enumerate_sig(sp, [&](const ref::Pos& p) {
        ++idx;
        if ((idx & 0x3FF) == 0 && R.out_of_time()) return false;   // also while only scanning
        std::vector<ref::Mv> lm;
        ref::gen_legal(p, lm);
        if (lm.empty()) return true;
        bool m1 = false;
        ref::Pos t;
        if (g_castle_mates)
        {
            // castling-mate family: keep only placements where castling mates; count those where it is the only mate
            bool cm = false, other_mate = false;
            for (auto& m : lm)
            {
                ref::make(p, m, t);
                if (!ref::is_mate(t)) continue;
                if (m.flags & (ref::F_CASTLE_K | ref::F_CASTLE_Q)) cm = true;
                else other_mate = true;
            }
            if (!cm) return true;
            R.count("mate_in_one_by_castling_positions");
            if (!other_mate) R.count("mate_in_one_only_by_castling_positions");
        }
        for (auto& m : lm)
        {
            ref::make(p, m, t);
            if (ref::is_mate(t))
            {
                m1 = true;
                break;
            }
        }
        // "near mates": a checking move after which the opponent has exactly one legal reply - where a slip in
        // move generation or evaluation turns into a false mate announcement
        bool near = false;
        // only worth looking for when the defender owns a pawn on its start rank (double step) or a pawn
        // beside an enemy pawn on its fifth rank (en passant after that pawn's neighbour double-steps)
        bool candidate = false;
        {
            int def = 1 - p.stm;
            char dp = ref::mk(def, 'p'), ap = ref::mk(p.stm, 'p');
            int start = def == ref::WHITE ? 1 : 6, fifth = def == ref::WHITE ? 4 : 3, astart = p.stm == ref::WHITE ? 1 : 6;
            for (int f = 0; f < 8 && !candidate; ++f)
            {
                if (p.b[start * 8 + f] == dp) candidate = true;
                if (p.b[fifth * 8 + f] == dp)
                    for (int df : {-1, 1})
                        if (f + df >= 0 && f + df < 8 && p.b[astart * 8 + f + df] == ap) candidate = true;
            }
        }
        if (!m1 && candidate)
            for (auto& m : lm)
            {
                ref::make(p, m, t);
                if (!ref::in_check(t, t.stm)) continue;
                std::vector<ref::Mv> replies;
                ref::gen_legal(t, replies);
                // ... and that reply is a pawn move (double step, en passant, capture by a pawn, promotion): the
                // special rules, where evasion generation differs from ordinary piece moves
                if (replies.size() == 1 && ref::lower(t.b[replies[0].from]) == 'p')
                {
                    near = true;
                    if (replies[0].flags & ref::F_DOUBLE) R.count("near_mate_only_reply_double_push");
                    if (replies[0].flags & ref::F_EP) R.count("near_mate_only_reply_en_passant");
                    break;
                }
            }
        if (near) R.count("near_mate_positions");
        if (m1 && g_m1_every > 1 && (idx % uint64_t(g_m1_every)) != 0) return true;
        int any_every = g_any_every >= 0 ? g_any_every : (q ? 97 : 16);
        if (!m1 && !near && (any_every == 0 || (idx % uint64_t(any_every)) != 0)) return true;
        // half-move clock lattice: a mate delivered on the 100th half-move is still a mate
        int clocks[3] = {0, 98, 99};
        ref::Pos pc = p;
        pc.hmc = m1 ? clocks[idx % 3] : 0;
        std::string fen = ref::fen(pc);
        // a non-mating legal move for the searchmoves-restricted history
        std::string other;
        if (m1)
            for (auto& m : lm)
            {
                ref::make(p, m, t);
                if (!ref::is_mate(t))
                {
                    other = ref::uci(m);
                    break;
                }
            }
        for (int d = 1; d <= maxd; ++d)
            for (int hist = 0; hist < (m1 ? 3 : 1); ++hist)
            {
                if (hist == 2 && other.empty()) continue;
                Session s;
                s.root_fen = fen;
                s.lines = {"position fen " + fen};
                if (hist == 1) s.lines.push_back("go depth 4");
                if (hist == 2) s.lines.push_back("go depth 3 searchmoves " + other);
                s.lines.push_back("go depth " + std::to_string(d));
                s.depth_limit = d;
                s.label = std::string(m1 ? "m1 " : "any ") + (hist == 0 ? "fresh" : hist == 1 ? "warm" : "warm_after_searchmoves") + (pc.hmc ? " clock" + std::to_string(pc.hmc) : "");
                run_and_check(s);
                sub.states++;
                if (sub.states == 9) R.sample(spec_json(s));
            }
        return !R.out_of_time();
    });
    sub.exhaustive = done;
    sub.transitions = sub.states;
    R.subspaces.push_back(sub);
}

// C08 (b) on middlegame-like material: every position within 1 (quick) / 2 plies of tactical seeds
// (forced mates through captures, sacrifices, back-rank and smothered patterns) x go depth 1..4/5
static void list_tactics()
{
    mc::Subspace sub;
    sub.name = "tactical neighbourhoods";
    bool q = TIER == "quick";
    int radius = q ? 1 : 2, maxd = q ? 4 : 5;
    sub.bound = "every position within " + std::to_string(radius) + " plies of 16 tactical seeds and their colour mirrors x go depth 1.." + std::to_string(maxd) + "; every final mate announcement verified by the solver";
    const char* seeds[] = {
        "r2r2k1/5ppp/8/8/4R3/8/4R1PP/4Q2K w - - 0 1",
        "3rr1k1/5ppp/8/8/8/8/5PPP/3RR1K1 w - - 0 1",
        "6rk/6pp/8/6N1/8/1Q6/6PP/6K1 w - - 0 1",
        "r5rk/6pp/7N/8/8/1Q6/6PP/6K1 w - - 0 1",
        "6k1/5ppp/8/8/8/8/8/R3K3 w Q - 0 1",
        "2r3k1/5ppp/8/8/8/8/2R2PPP/2R3K1 w - - 0 1",
        "r1bq2kr/pppp2pp/2n5/2b1N3/2B1P3/8/PPP2nPP/RNBQ1RK1 w - - 0 1",
        "rnb1kbnr/pppp1ppp/8/4p3/6Pq/5P2/PPPPP2P/RNBQKBNR w KQkq - 1 3",
        "r1bqkb1r/pppp1Qpp/2n2n2/4p3/2B1P3/8/PPPP1PPP/RNB1K1NR b KQkq - 0 4",
        "5rk1/5ppp/8/8/8/8/3Q1PPP/3R2K1 w - - 0 1",
        "4r1k1/5ppp/8/8/8/5Q2/5PPP/4R1K1 w - - 0 1",
        "7k/5Q2/6K1/8/8/8/8/8 w - - 0 1",
        "k7/2Q5/1K6/8/8/8/8/8 b - - 0 1",
        "8/8/8/8/8/5k2/4q3/6K1 w - - 0 1",
        "kbK5/pp6/1P6/8/8/8/8/R7 w - - 0 1",
        "8/8/8/8/1b6/k7/2p5/K1B5 b - - 0 1",
    };
    std::set<std::string> seen;
    std::vector<ref::Pos> todo;
    for (const char* f : seeds)
    {
        ref::Pos p;
        ref::parse_fen(f, p);
        for (int mir = 0; mir < 2; ++mir)
        {
            ref::Pos r = mir ? ref::mirror(p) : p;
            r.hmc = 0;
            r.fmn = 1;
            if (!ref::retro_ok(r)) continue;
            std::vector<ref::Pos> frontier{r};
            for (int d = 0; d <= radius; ++d)
            {
                std::vector<ref::Pos> next;
                for (auto& x : frontier)
                {
                    if (!seen.insert(ref::identity(x)).second) continue;
                    todo.push_back(x);
                    if (d == radius) continue;
                    std::vector<ref::Mv> lm;
                    ref::gen_legal(x, lm);
                    ref::Pos t;
                    for (auto& m : lm)
                    {
                        ref::make(x, m, t);
                        t.hmc = 0;
                        next.push_back(t);
                    }
                }
                frontier.swap(next);
            }
        }
    }
    R.count("tactical_positions", todo.size());
    for (auto& x : todo)
    {
        std::vector<ref::Mv> lm;
        ref::gen_legal(x, lm);
        if (lm.empty()) continue;
        bool m1 = memo_can_mate_in(x, 1);
        for (int d = 1; d <= maxd; ++d)
        {
            if (!mine()) continue;
            if (R.out_of_time()) goto done;
            Session s = base(ref::fen(x), "go depth " + std::to_string(d), std::string(m1 ? "m1 " : "any ") + "tactics");
            s.spec.horizon = 5000000;
            run_and_check(s);
            sub.states++;
            if (sub.states == 6) R.sample(spec_json(s));
        }
    }
    sub.exhaustive = true;
done:
    sub.transitions = sub.states;
    R.subspaces.push_back(sub);
}

static void list_depths()
{
    mc::Subspace sub;
    sub.name = "depth limits and searchmoves";
    bool q = TIER == "quick";
    sub.bound = "cheap positions x go depth d for d in 1..45,60,100,1000 ; small positions x depth 1..4 x every non-empty searchmoves subset (<=6 root moves: all subsets; else singletons and adjacent pairs) x table pre-state {fresh, same position searched before at depth 5 without searchmoves}; every ordered pair of 9 go commands of different kinds in one session; depth + time control in one go";
    // deep limits on positions where iterations are cheap
    const char* cheap[] = {"7k/5K2/8/6Q1/8/8/8/8 b - - 0 1", "8/8/8/3k4/8/3K4/3B4/8 w - - 0 1", "k7/8/1K6/8/8/8/8/7B b - - 0 1", "8/8/8/3k4/8/3K4/3P4/8 w - - 0 1"};
    std::vector<int> ds;
    for (int d = 1; d <= 45; ++d) ds.push_back(d);
    for (int d : {60, 100, 1000}) ds.push_back(d);
    for (int ci = 0; ci < 4; ++ci)
        for (int d : ds)
        {
            if (ci == 3 && d > (q ? 8 : 12)) continue;   // KPK has a real search tree
            if (!mine()) continue;
            if (R.out_of_time()) goto done;
            Session s = base(cheap[ci], "go depth " + std::to_string(d), "deep");
            s.spec.horizon = 30000000;
            run_and_check(s);
            sub.states++;
        }
    for (auto& sp : SEEDS)
    {
        if (sp.cls == 2 && std::string(sp.name) != "startpos") continue;
        int maxd = sp.cls == 0 ? (q ? 3 : 4) : 2;
        for (auto& sm : sm_variants(sp.fen, true))
            for (int d = 1; d <= maxd; ++d)
                for (int pre = 0; pre < 2; ++pre)
                {
                    if (!mine()) continue;
                    if (R.out_of_time()) goto done;
                    Session s = base(sp.fen, "go depth " + std::to_string(d) + sm, std::string("sm:") + sp.name);
                    if (pre == 1)
                    {
                        s.lines.insert(s.lines.begin() + 1, "go depth " + std::to_string(sp.cls == 0 ? 5 : 3));
                    }
                    run_and_check(s);
                    sub.states++;
                    if (sub.states == 13) R.sample(spec_json(s));
                }
    }
    // sequences of two `go` commands of different kinds in one session: nothing of the first may leak into the second
    {
        const char* fens2[] = {"8/8/8/3k4/8/3K4/3P4/8 w - - 0 1", "r3k2r/8/8/8/8/8/8/R3K2R w KQkq - 0 1", "8/8/8/3k4/8/8/3K4/R7 w - - 0 1"};
        for (const char* fen : fens2)
        {
            auto ms = legal_ucis(fen);
            std::vector<std::string> alpha = {"go depth 1", "go depth 3", "go infinite", "go nodes 1", "go movetime 50", "go wtime 200 btime 200 movestogo 2",
                                              "go depth 2 searchmoves " + ms[0], "go depth 2 searchmoves " + ms[ms.size() - 1], "go depth 3 movetime 100000"};
            for (auto& first : alpha)
                for (auto& second : alpha)
                {
                    if (second == "go infinite") continue;   // the judged command must be finite
                    for (int withpos = 0; withpos < 2; ++withpos)
                    {
                        if (!mine()) continue;
                        if (R.out_of_time()) goto done;
                        Session s = base(fen, second, "sequence");
                        s.lines.insert(s.lines.begin() + 1, first);
                        if (withpos) s.lines.insert(s.lines.begin() + 2, std::string("position fen ") + fen);
                        if (first == "go infinite") s.spec.stop_at_first = 200;
                        s.spec.clock_step_ms = 25;
                        s.spec.horizon = 3000000;
                        run_and_check(s);
                        sub.states++;
                    }
                }
        }
    }
    // a depth limit given together with a time control: the depth limit still binds
    for (auto& sp : SEEDS)
    {
        if (sp.cls == 2) continue;
        for (int d : {1, 2, 3})
            for (const char* extra : {" movetime 100000", " wtime 600000 btime 600000", " wtime 600000 btime 600000 winc 1000 binc 1000 movestogo 5", " movetime 100000 searchmoves @0"})
            {
                std::string go = "go depth " + std::to_string(d) + extra;
                if (go.find('@') != std::string::npos)
                {
                    auto ms = legal_ucis(sp.fen);
                    go = go.substr(0, go.find('@')) + ms[0];
                }
                if (!mine()) continue;
                if (R.out_of_time()) goto done;
                Session s = base(sp.fen, go, std::string("depth+clock:") + sp.name);
                s.spec.clock_step_ms = 1;
                s.spec.horizon = 3000000;
                run_and_check(s);
                sub.states++;
            }
    }
    // time / clock limits under a virtual clock: every step size makes the budget expire at another poll
    for (auto& sp : SEEDS)
    {
        if (sp.cls == 2) continue;
        for (int step : {5, 10, 25, 50, 100, 1000})
            for (const char* g : {"go movetime 100", "go wtime 1000 btime 1000", "go wtime 60000 btime 60000 winc 1000 binc 1000 movestogo 10", "go movetime 100 searchmoves @0"})
            {
                std::string go = g;
                if (go.find('@') != std::string::npos)
                {
                    auto ms = legal_ucis(sp.fen);
                    go = "go movetime 100 searchmoves " + ms[0];
                }
                // keep budget / step below ~200 polls so that the run ends inside the node horizon
                if (go.find("60000") != std::string::npos && step < 100) continue;
                if (!mine()) continue;
                if (R.out_of_time()) goto done;
                Session s = base(sp.fen, go, std::string("clock:") + sp.name);
                s.spec.clock_step_ms = step;
                s.spec.horizon = 30000000;
                run_and_check(s);
                sub.states++;
            }
    }
    sub.exhaustive = true;
done:
    sub.transitions = sub.states;
    R.subspaces.push_back(sub);
}

static std::vector<std::string> g_seed_fens;

static std::vector<std::string> board_reports(const std::string& out)
{
    // every `Fen: "..."` + `Hash: ...` pair printed by printboard
    std::vector<std::string> v;
    std::istringstream is(out);
    std::string l, fen;
    while (std::getline(is, l))
    {
        if (l.rfind("Fen: \"", 0) == 0) fen = l.substr(6, l.size() - 7);
        else if (l.rfind("Hash: ", 0) == 0) v.push_back(fen + " #" + l.substr(6));
    }
    return v;
}

// C02 through the text protocol: `position fen F moves ...` + printboard vs the reference model
static void list_ucipath()
{
    mc::Subspace sub;
    sub.name = "position ... moves ... through Uci::loop";
    int depth = TIER == "quick" ? 2 : 3;
    sub.bound = "every move path up to " + std::to_string(depth) + " plies from every seed, sent as ONE `position fen F moves m1..mk` line; printboard FEN vs refchess";
    for (auto& fen : g_seed_fens)
    {
        ref::Pos root;
        ref::parse_fen(fen, root);
        std::function<void(const ref::Pos&, const std::string&, int)> rec = [&](const ref::Pos& p, const std::string& moves, int d) {
            if (R.out_of_time()) return;
            if (mine())
            {
                sess::Spec sp;
                sp.lines = {"position fen " + fen + (moves.empty() ? "" : " moves" + moves), "printboard"};
                sess::Outcome o = g_inproc ? sess::run_inproc(*g_uci, sp) : sess::run(*g_uci, sp);
                R.count("sessions");
                sub.states++;
                auto reps = board_reports(o.output);
                std::string want = ref::fen(p);
                std::string got = reps.empty() ? "(no printboard output)" : reps.back().substr(0, reps.back().find(" #"));
                if (got != want)
                    R.violation("C02:uci_text_path", mc::JObj().s("position_line", sp.lines[0]).s("engine_fen", got).s("rules_fen", want));
                else
                    R.outcome(std::to_string(d));
                if (sub.states == 20) R.sample(mc::JObj().s("position_line", sp.lines[0]).s("fen", got).str());
            }
            if (d == depth) return;
            std::vector<ref::Mv> lm;
            ref::gen_legal(p, lm);
            ref::Pos t;
            for (auto& m : lm)
            {
                ref::make(p, m, t);
                sub.transitions++;
                rec(t, moves + " " + ref::uci(m), d + 1);
            }
        };
        rec(root, "", 0);
    }
    sub.exhaustive = !R.out_of_time();
    R.subspaces.push_back(sub);
}

// C03 (iv): a search or perft never alters the position it was asked about
static void list_ucikeep()
{
    mc::Subspace sub;
    sub.name = "go / perft leave the UCI position unchanged";
    sub.bound = "every seed and every position one ply below it: printboard+hash before == after `go depth 1..3`, `go depth 2` stopped at every 7th node visit, `perft 1..3`";
    for (auto& fen : g_seed_fens)
    {
        ref::Pos root;
        ref::parse_fen(fen, root);
        std::vector<ref::Mv> lm;
        ref::gen_legal(root, lm);
        std::vector<std::string> positions{"position fen " + fen};
        for (auto& m : lm) positions.push_back("position fen " + fen + " moves " + ref::uci(m));
        bool big = lm.size() > 60;
        for (auto& pl : positions)
        {
            std::vector<std::pair<std::string, long long>> cmds = {{"go depth 1", -1}, {"go depth 2", -1}, {"perft 1", -1}, {"perft 2", -1}};
            if (!big) cmds.push_back({"go depth 3", -1});
            if (!big) cmds.push_back({"perft 3", -1});
            for (long long k = 0; k < 60; k += 7) cmds.push_back({"go depth 2", k});
            for (auto& c : cmds)
            {
                if (!mine()) continue;
                if (R.out_of_time()) goto done;
                sess::Spec sp;
                sp.lines = {pl, "printboard", c.first, "printboard"};
                sp.stop_at = c.second;
                sess::Outcome o = g_inproc ? sess::run_inproc(*g_uci, sp) : sess::run(*g_uci, sp);
                R.count("sessions");
                sub.states++;
                auto reps = board_reports(o.output);
                // the search works on its own copy of the position: that copy must be back at the root too
                if (g_inproc && c.first[0] == 'g' && g_uci->search && !reps.empty())
                {
                    std::string inner = g_uci->search->_position.fen();
                    if (inner != reps[0].substr(0, reps[0].find(" #")))
                        R.violation("C03:search_left_its_position_changed", mc::JObj().s("position_line", pl).s("command", c.first).n("stop_at", c.second)
                                        .s("before", reps[0]).s("searched_position_afterwards", inner));
                }
                if (reps.size() != 2 || reps[0] != reps[1])
                    R.violation(std::string("C03:uci_position_changed_by:") + (c.first[0] == 'g' ? "go" : "perft"),
                                mc::JObj().s("position_line", pl).s("command", c.first).n("stop_at", c.second).s("before", reps.empty() ? "" : reps[0]).s("after", reps.size() > 1 ? reps[1] : ""));
                else
                    R.outcome(c.first);
                if (sub.states == 20) R.sample(mc::JObj().s("position_line", pl).s("command", c.first).str());
            }
        }
    }
    sub.exhaustive = true;
done:
    sub.transitions = sub.states;
    R.subspaces.push_back(sub);
}

// C06, two searches back to back as a fast GUI drives them: `go` number two is handled the moment the
// first bestmove line is out (the first search thread still has its last statements to run), then `stop`
static void list_overlap()
{
    mc::Subspace sub;
    sub.name = "second go while the first search thread is finishing";
    sub.bound = "3 positions x first go depth 1..3 x second go {infinite, depth 30} x {stop, isready+stop}: the second go must be answered by exactly one bestmove after `stop`";
    const char* fens[] = {"8/8/8/3k4/8/3K4/3P4/8 w - - 0 1", "r3k2r/8/8/8/8/8/8/R3K2R w KQkq - 0 1", "rnbqkbnr/pppppppp/8/8/8/8/PPPPPPPP/RNBQKBNR w KQkq - 0 1"};
    for (const char* fen : fens)
        for (int d1 = 1; d1 <= 3; ++d1)
            for (const char* second : {"go infinite", "go depth 30"})
                for (int withready = 0; withready < 2; ++withready)
                {
                    if (!mine()) continue;
                    sess::Spec sp;
                    sp.lines = {std::string("position fen ") + fen, "go depth " + std::to_string(d1), second};
                    if (withready) sp.lines.push_back("isready");
                    sp.lines.push_back("stop");
                    sp.overlap = true;
                    sp.horizon = 400000;
                    sess::Outcome o = g_inproc ? sess::run_inproc(*g_uci, sp) : sess::run(*g_uci, sp);
                    sess::Parsed all = sess::parse_output(o.output, false);
                    R.count("sessions");
                    sub.states++;
                    std::vector<std::string> ls(sp.lines.begin(), sp.lines.end());
                    auto w = [&]() { return mc::JObj().raw("script", mc::jlist(ls, true)).n("bestmove_lines", (long long)all.bestmoves.size()).n("readyok_lines", all.readyok).b("horizon_hit", o.horizon_hit); };
                    if (o.crashed)
                        R.violation("C06:overlap:crash", w().s("stderr", o.stderr_tail));
                    else if (o.horizon_hit || all.bestmoves.size() != 2)
                        R.violation("C06:overlap:stop_lost_for_second_go", w());
                    else if (withready && all.readyok != 1)
                        R.violation("C06:overlap:readyok_count", w());
                    R.outcome(std::to_string(all.bestmoves.size()) + (o.horizon_hit ? "h" : ""));
                    if (sub.states == 2) R.sample(w().str());
                }
    sub.exhaustive = true;
    sub.transitions = sub.states * 5;
    R.subspaces.push_back(sub);
}

// C20 at the search seam: virtual thinking time of `go wtime T btime T ...` must stay within 70 % of T
static void list_clockseam()
{
    mc::Subspace sub;
    sub.name = "thinking time at the search seam";
    sub.bound = "positions with 1 / 2 / several legal moves x T in {1,5,20,70,100,300,714,1000,3000} ms x inc {0,50} x movestogo {0,1,30}; virtual clock +1 ms (T<=300) or +5 ms per read";
    const char* fens[] = {"7k/5K2/8/6Q1/8/8/8/8 b - - 0 1", "k7/8/1K6/8/8/8/8/7B b - - 0 1", "8/8/8/3k4/8/3K4/3P4/8 w - - 0 1",
                          "8/8/8/3k4/8/8/3K4/R7 w - - 0 1", "r3k2r/8/8/8/8/8/8/R3K2R w KQkq - 0 1"};
    for (const char* fen : fens)
        for (int T : {1, 5, 20, 70, 100, 300, 714, 1000, 3000})
            for (int inc : {0, 50})
                for (int mtg : {0, 1, 30})
                {
                    if (!mine()) continue;
                    if (R.out_of_time()) goto done;
                    std::string go = "go wtime " + std::to_string(T) + " btime " + std::to_string(T);
                    if (inc) go += " winc " + std::to_string(inc) + " binc " + std::to_string(inc);
                    if (mtg) go += " movestogo " + std::to_string(mtg);
                    Session s = base(fen, go, "clockseam");
                    int step = T <= 300 ? 1 : 5;
                    s.spec.clock_step_ms = step;
                    s.spec.horizon = 60000000;
                    s.spec.lines = s.lines;
                    sess::Outcome o = g_inproc ? sess::run_inproc(*g_uci, s.spec) : sess::run(*g_uci, s.spec);
                    R.count("sessions");
                    sub.states++;
                    long long think = o.think_ms.empty() ? -1 : o.think_ms.back();
                    size_t nmoves = legal_ucis(fen).size();
                    // the search stops at the first clock read at or after its budget: think <= budget + step
                    if (o.horizon_hit || think < 0)
                        R.violation("C20:search_seam:no_answer_within_horizon", mc::JObj().raw("session", spec_json(s)));
                    else if (10 * (think - 8 * step) > 7LL * T)
                        R.violation(std::string("C20:search_seam:above_70_percent:") + (nmoves == 1 ? "single_legal_move" : "several_legal_moves"),
                                    mc::JObj().raw("session", spec_json(s)).n("thinking_ms", think).n("time_left_ms", T).n("legal_moves", (long long)nmoves));
                    R.outcome(std::to_string(T ? 100 * think / T : 0));
                    if (sub.states == 4) R.sample(mc::JObj().raw("session", spec_json(s)).n("thinking_ms", think).str());
                }
    sub.exhaustive = true;
done:
    sub.transitions = sub.states;
    R.subspaces.push_back(sub);
}

int main(int argc, char** argv)
{
    std::string out, list, sigspec, replay;
    uint64_t seed = 1;
    for (int i = 1; i < argc; ++i)
    {
        std::string a = argv[i];
        if (a == "--prop") PROP = argv[++i];
        else if (a == "--list") list = argv[++i];
        else if (a == "--sig") sigspec = argv[++i];
        else if (a == "--tier") TIER = argv[++i];
        else if (a == "--out") out = argv[++i];
        else if (a == "--seed") seed = strtoull(argv[++i], nullptr, 10);
        else if (a == "--deadline") R.deadline_s = atof(argv[++i]);
        else if (a == "--replay") replay = argv[++i];
        else if (a == "--inproc") g_inproc = true;
        else if (a == "--m1every") g_m1_every = atoi(argv[++i]);
        else if (a == "--castlemates") g_castle_mates = true;
        else if (a == "--anyevery") g_any_every = atoi(argv[++i]);
        else if (a == "--seeds")
        {
            FILE* f = fopen(argv[++i], "r");
            char buf[512];
            while (f && fgets(buf, sizeof buf, f))
            {
                std::string l(buf);
                size_t tab = l.find('\t');
                if (l.empty() || l[0] == '#' || tab == std::string::npos) continue;
                std::string fen = l.substr(tab + 1);
                while (!fen.empty() && (fen.back() == '\n' || fen.back() == ' ')) fen.pop_back();
                g_seed_fens.push_back(fen);
            }
            if (f) fclose(f);
        }
        else if (a == "--shard")
        {
            std::string v = argv[++i];
            SHARD = atoi(v.c_str());
            NSH = atoi(v.substr(v.find('/') + 1).c_str());
        }
    }
    move_bitboards::init();
    zobrist::init();
    sess::seed_zobrist(seed);
    bitbase::init();
    endgame::init();
    Uci uci;
    g_uci = &uci;
    R.keep_per_class = 3;
    if (!replay.empty())
    {
        // replay file: line 1 root fen, line 2.. script lines, then directives "#stop_at k" etc.
        FILE* f = fopen(replay.c_str(), "r");
        if (!f) return 2;
        char buf[8192];
        Session s;
        while (fgets(buf, sizeof buf, f))
        {
            std::string l(buf);
            while (!l.empty() && (l.back() == '\n' || l.back() == '\r')) l.pop_back();
            if (l.rfind("#root ", 0) == 0) s.root_fen = l.substr(6);
            else if (l.rfind("#stop_at ", 0) == 0) s.spec.stop_at = atoll(l.c_str() + 9);
            else if (l.rfind("#stop_at_first ", 0) == 0) s.spec.stop_at_first = atoll(l.c_str() + 15);
            else if (l.rfind("#clock ", 0) == 0) s.spec.clock_step_ms = atoll(l.c_str() + 7);
            else if (l.rfind("#horizon ", 0) == 0) s.spec.horizon = atoll(l.c_str() + 9);
            else if (l.rfind("#depth_limit ", 0) == 0) s.depth_limit = atoi(l.c_str() + 13);
            else if (l.rfind("#finite ", 0) == 0) s.finite = atoi(l.c_str() + 8);
            else if (l.rfind("#label ", 0) == 0) s.label = l.substr(7);
            else if (l.rfind("#searchmove ", 0) == 0) s.searchmoves.push_back(l.substr(12));
            else if (l.rfind("#poison ", 0) == 0)
            {
                unsigned long long key;
                long long sc;
                int d, fl, at;
                unsigned mv;
                sscanf(l.c_str() + 8, "%llu %lld %d %d %u %d", &key, &sc, &d, &fl, &mv, &at);
                s.spec.poison.active = true;
                s.spec.poison.key = key;
                s.spec.poison.score = sc;
                s.spec.poison.depth = d;
                s.spec.poison.flag = fl;
                s.spec.poison.move = mv;
                s.spec.poison.at_line = at;
            }
            else if (!l.empty() && l[0] != '#') s.lines.push_back(l);
        }
        fclose(f);
        sess::Outcome o = run_and_check(s);
        fprintf(stderr, "---- engine output ----\n%s\n", o.output.c_str());
        mc::Subspace sub;
        sub.name = "replay";
        sub.bound = "one session";
        sub.states = 1;
        sub.exhaustive = true;
        R.subspaces.push_back(sub);
        return R.write(out) ? 0 : 2;
    }
    g_book_dir = (out.find('/') == std::string::npos ? std::string(".") : out.substr(0, out.rfind('/'))) + "/books";
    mkdir(g_book_dir.c_str(), 0755);
    if (list == "book") list_book();
    else if (list == "limits") list_limits();
    else if (list == "stops") list_stops();
    else if (list == "history") list_history();
    else if (list == "poison") list_poison();
    else if (list == "mates") list_mates(sigspec);
    else if (list == "depths") list_depths();
    else if (list == "tactics") list_tactics();
    else if (list == "clockseam") list_clockseam();
    else if (list == "overlap") list_overlap();
    else if (list == "ucipath") list_ucipath();
    else if (list == "ucikeep") list_ucikeep();
    else return 2;
    return R.write(out) ? 0 : 2;
}
