// schedmc — C06: all interleavings (at hook granularity) of the UCI reader thread with the search
// thread, under a cooperative scheduler over VERIF_POINTs.  One forked child per schedule.
//
//   schedmc --script stop_isready|isready_stop|depth2_stop --n0 N --bound B --shard i/n --out f.json
//   schedmc --script ... --one a,b --bound B --out f.json [--trace]
#include "mc_common.h"
#include "refchess.h"

#include "endgame.h"
#include "movegen.h"
#include "position.h"
#include "search.h"
#include "uci.h"
#include "verif_hooks.h"
#include "zobrist_hash.h"

#include <atomic>
#include <condition_variable>
#include <mutex>
#include <random>
#include <csignal>
#include <sstream>
#include <sys/wait.h>
#include <thread>
#include <unistd.h>

#ifndef CHESSPLUSPLUS_VERIF
#error "schedmc needs the hooked build"
#endif

using namespace engine;
namespace engine
{
extern uint64_t PIECE_HASH[PIECE_NUM][SQUARE_NUM];
extern uint64_t CASTLING_HASH[1 << 4];
extern uint64_t SIDE_HASH;
extern uint64_t ENPASSANT_HASH[FILE_NUM];
}  // namespace engine

// frozen clock: `go infinite` / `go depth` never consult it for limits, and output stays reproducible
namespace std
{
namespace chrono
{
inline namespace _V2
{
steady_clock::time_point steady_clock::now() noexcept { return time_point(duration(1000000000LL)); }
}  // namespace _V2
}  // namespace chrono
}  // namespace std

static mc::Result R;
static const char* ARENAS[] = {"8/8/8/3k4/8/3K4/3P4/8 w - - 0 1",
                               // many mutual captures: large quiescence trees under every node
                               "k7/8/8/8/3r1r2/2r3r1/1r1R1R1r/K2R1R2 w - - 0 1"};
static const char* ARENA = ARENAS[0];

static const char* PNAME[] = {"SEARCH_STOP", "GO_ENTER", "GO_INIT_DONE", "GO_RESET_DONE", "GO_BESTMOVE", "ITER_START", "NODE", "QNODE",
                              "UCI_LINE", "UCI_GO_SPAWNED", "THREAD_START", "THREAD_END", "FLAG_LOAD", "FLAG_STORE", "IO_LOCKED", "IO_UNLOCKING", "OUTPUT"};
static const int POINT_OUTPUT = 16;   // harness-local: a write to std::cout (either thread)

// ------------------------------------------------------------------ scheduler (child process only)
struct Th
{
    bool exists = false, parked = false, granted = false, finished = false;
    int point = -1;
    long long steps = 0;
};
static std::mutex g_m;
static std::condition_variable g_cv;
static Th g_th[3];  // 1 = U, 2 = S
static thread_local int t_role = 0;
static std::string g_trace, g_u_line;
static bool g_want_trace = false;

static std::atomic<int> g_io_owner{0};   // which role holds the engine's output lock (0 = nobody)

static void hook(int point, void*, const void* a, const void*)
{
    if (point == verif::IO_LOCKED || point == verif::IO_UNLOCKING)
    {
        // notifications, not schedule points
        g_io_owner = point == verif::IO_LOCKED ? (t_role == 1 ? 1 : 2) : 0;
        return;
    }
    std::unique_lock<std::mutex> lk(g_m);
    if (t_role == 0)
    {
        t_role = 2;  // any thread that is not U is the search thread
        g_th[2].exists = true;
    }
    Th& me = g_th[t_role];
    me.parked = true;
    me.point = point;
    if (point == verif::UCI_LINE) g_u_line = static_cast<const char*>(a);
    g_cv.notify_all();
    g_cv.wait(lk, [&] { return me.granted; });
    me.granted = false;
}

// std::cout of the child: every write is a schedule point, so the reader thread's `readyok` can be
// placed between two pieces of an `info` line the search thread is printing
struct HookedBuf : std::streambuf
{
    std::string data;
    int_type overflow(int_type c) override
    {
        if (verif::point_cb && t_role != 1) verif::point_cb(POINT_OUTPUT, nullptr, nullptr, nullptr);
        if (c != traits_type::eof()) data += char(c);
        return c;
    }
    std::streamsize xsputn(const char* p, std::streamsize n) override
    {
        if (verif::point_cb && t_role != 1) verif::point_cb(POINT_OUTPUT, nullptr, nullptr, nullptr);
        data.append(p, size_t(n));
        return n;
    }
};

enum WaitResult { PARKED, FINISHED, TIMEOUT };
// bounded wait on the REAL clock (system_clock is not interposed): used to notice that a thread is
// blocked on something the other, parked thread holds
static WaitResult wait_parked_grace(int role, int ms)
{
    std::unique_lock<std::mutex> lk(g_m);
    bool ok = g_cv.wait_until(lk, std::chrono::system_clock::now() + std::chrono::milliseconds(ms),
                              [&] { return g_th[role].parked || g_th[role].finished; });
    if (!ok) return TIMEOUT;
    return g_th[role].finished ? FINISHED : PARKED;
}

static WaitResult wait_parked(int role)
{
    // no timed wait here: std::condition_variable::wait_for would consult the (frozen) interposed
    // steady_clock. A thread that never parks again wedges the child; alarm() then kills it and the
    // parent reports "blocked".
    std::unique_lock<std::mutex> lk(g_m);
    g_cv.wait(lk, [&] { return g_th[role].parked || g_th[role].finished; });
    return g_th[role].finished ? FINISHED : PARKED;
}
static void grant(int role)
{
    std::unique_lock<std::mutex> lk(g_m);
    if (g_want_trace)
    {
        // recorded at grant time by the (sequential) controller, so the trace does not depend on
        // which of two freshly started threads reaches its first point first
        g_trace += (role == 1 ? "U:" : "S:");
        g_trace += PNAME[g_th[role].point];
        if (g_th[role].point == verif::UCI_LINE) g_trace += "(" + g_u_line + ")";
        g_trace += ' ';
    }
    g_th[role].parked = false;   // must be cleared here, otherwise the same park is seen again
    g_th[role].granted = true;
    g_th[role].steps++;
    g_cv.notify_all();
}
// grant and wait for the next park / end of that thread
static WaitResult step(int role)
{
    bool was_end;
    {
        std::unique_lock<std::mutex> lk(g_m);
        was_end = role == 2 && g_th[2].point == verif::THREAD_END;
    }
    grant(role);
    if (was_end)
    {
        std::unique_lock<std::mutex> lk(g_m);
        g_th[2].finished = true;
        return FINISHED;
    }
    // a reader thread that needs the output lock while the parked search thread holds it blocks at once:
    // no point in waiting long for it (it parks within microseconds when it does not block)
    return wait_parked_grace(role, role == 1 && g_io_owner.load() == 2 ? 40 : 1500);
}

struct ChildResult
{
    std::string verdict;  // ok | stop_lost | blocked:<who> | ...
    std::string output, trace;
    long long s_steps_after_stop = -1, s_total = 0, reader_waits = 0;
};

// runs in the forked child; a, b = number of S steps before U's stop-flag step and before U's last step
static void child_main(Uci& uci, const std::vector<std::string>& script, int a, int b, int bound, int wfd)
{
    alarm(20);
    std::string text;
    for (auto& l : script) text += l + "\n";
    std::istringstream in(text);
    HookedBuf outbuf;
    std::cin.rdbuf(in.rdbuf());
    std::cout.rdbuf(&outbuf);
    verif::point_cb = hook;
    g_th[1].exists = true;
    std::thread U([&] {
        t_role = 1;
        uci.loop();
        std::unique_lock<std::mutex> lk(g_m);
        g_th[1].finished = true;
        g_cv.notify_all();
    });
    U.detach();
    std::string verdict = "ok";
    int reader_waits = 0;
    long long after_stop = -1;
    bool stop_done = false, best_seen = false;
    auto fail = [&](const std::string& v) { verdict = v; };

    // prefix: run U until the search thread has been spawned and is parked at THREAD_START
    bool spawned = false;
    for (int i = 0; i < 10 && !spawned; ++i)
    {
        WaitResult w = wait_parked(1);
        if (w != PARKED)
        {
            fail("prefix_failed");
            break;
        }
        if (g_th[1].point == verif::UCI_GO_SPAWNED) spawned = true;
        else grant(1);
    }
    auto s_step = [&]() -> bool {
        // one step of S; returns false if S cannot move any more
        if (g_th[2].finished) return false;
        WaitResult w = step(2);
        if (w == TIMEOUT)
        {
            fail("deadlock:search_thread_blocked_forever");
            return false;
        }
        if (!g_th[2].finished && g_th[2].point == verif::GO_BESTMOVE) best_seen = true;
        if (stop_done && !best_seen) ++after_stop;
        return true;
    };
    if (verdict == "ok")
    {
        if (wait_parked(2) != PARKED || g_th[2].point != verif::THREAD_START) fail("search_thread_did_not_start");
    }
    if (verdict == "ok")
    {
        // The reader thread is held at two parks: before it starts executing `stop` and before it
        // starts executing `isready` (UCI_LINE parks); `a` search-thread steps are granted before the
        // first of them in script order, `b - a` more before the second. Inside a command the reader
        // thread only touches the stop flag, so its inner parks are released at once.
        int held = 0;
        int budget[2] = {a, b - a};
        bool in_stop_cmd = false;
        while (verdict == "ok")
        {
            WaitResult wu = wait_parked_grace(1, g_io_owner.load() == 2 ? 40 : 1500);
            if (wu == TIMEOUT)
            {
                if (g_io_owner.load() == 2 && !g_th[2].finished)
                {
                    // the reader thread waits for the output lock held by the parked search thread: run the
                    // search thread on until it lets go of the lock, then look at the reader again
                    ++reader_waits;
                    while (verdict == "ok" && g_io_owner.load() == 2 && s_step()) {}
                    continue;
                }
                if (wait_parked_grace(1, 3000) == TIMEOUT)
                {
                    fail("deadlock:reader_thread_blocked_forever");
                    break;
                }
                continue;
            }
            if (wu == FINISHED) break;
            bool at_line = g_th[1].point == verif::UCI_LINE;
            if (at_line && in_stop_cmd)
            {
                // `stop` has returned
                in_stop_cmd = false;
                stop_done = true;
                if (!best_seen) after_stop = 0;
            }
            bool interesting = at_line && (g_u_line == "stop" || g_u_line == "isready");
            if (interesting && held < 2)
            {
                for (int i = 0; i < budget[held] && verdict == "ok"; ++i)
                    if (!s_step()) break;
                ++held;
            }
            if (at_line && g_u_line == "stop") in_stop_cmd = true;
            WaitResult w = step(1);
            if (w == TIMEOUT) continue;   // handled at the top of the loop
            if (w == FINISHED)
            {
                if (in_stop_cmd)
                {
                    stop_done = true;
                    if (!best_seen) after_stop = 0;
                }
                break;
            }
        }
    }
    // U is done (or failed): run S to its bestmove within the bound
    if (verdict == "ok")
    {
        while (!g_th[2].finished)
        {
            if (stop_done && !best_seen && after_stop > bound)
            {
                fail("stop_lost_or_not_prompt");
                break;
            }
            if (!stop_done && g_th[2].steps > 200000)
            {
                fail("horizon");
                break;
            }
            if (!s_step()) break;
        }
    }
    verif::point_cb = nullptr;
    std::string res = "verdict " + verdict + "\n";
    res += "after_stop " + std::to_string(after_stop) + "\n";
    res += "s_total " + std::to_string(g_th[2].steps) + "\n";
    res += "reader_waits " + std::to_string(reader_waits) + "\n";
    res += "trace " + g_trace + "\n";
    {
        std::unique_lock<std::mutex> lk(g_m);   // output buffer is only touched by parked threads now
        res += "output\n" + outbuf.data;
    }
    size_t off = 0;
    while (off < res.size())
    {
        ssize_t n = ::write(wfd, res.data() + off, res.size() - off);
        if (n <= 0) break;
        off += size_t(n);
    }
    _exit(0);
}

static ChildResult run_schedule(Uci& uci, const std::vector<std::string>& script, int a, int b, int bound)
{
    int pfd[2];
    if (pipe(pfd) != 0) abort();
    pid_t pid = fork();
    if (pid == 0)
    {
        close(pfd[0]);
        child_main(uci, script, a, b, bound, pfd[1]);
        _exit(0);
    }
    close(pfd[1]);
    std::string all;
    char buf[65536];
    ssize_t n;
    while ((n = read(pfd[0], buf, sizeof buf)) > 0) all.append(buf, size_t(n));
    close(pfd[0]);
    int st = 0;
    waitpid(pid, &st, 0);
    ChildResult r;
    if (WIFSIGNALED(st) && WTERMSIG(st) == SIGALRM)
    {
        r.verdict = "blocked:no_thread_reaches_its_next_point";
        return r;
    }
    if (!(WIFEXITED(st) && WEXITSTATUS(st) == 0) || all.empty())
    {
        r.verdict = "child_died";
        return r;
    }
    std::istringstream is(all);
    std::string l;
    while (std::getline(is, l))
    {
        if (l.rfind("verdict ", 0) == 0) r.verdict = l.substr(8);
        else if (l.rfind("after_stop ", 0) == 0) r.s_steps_after_stop = atoll(l.c_str() + 11);
        else if (l.rfind("s_total ", 0) == 0) r.s_total = atoll(l.c_str() + 8);
        else if (l.rfind("reader_waits ", 0) == 0) r.reader_waits = atoll(l.c_str() + 13);
        else if (l.rfind("trace ", 0) == 0) r.trace = l.substr(6);
        else if (l == "output")
        {
            std::string rest((std::istreambuf_iterator<char>(is)), std::istreambuf_iterator<char>());
            r.output = rest;
            break;
        }
    }
    return r;
}

static std::vector<std::string> script_of(const std::string& name)
{
    std::string pos = std::string("position fen ") + ARENA;
    if (name == "stop_isready") return {pos, "go infinite", "stop", "isready"};
    if (name == "isready_stop") return {pos, "go infinite", "isready", "stop"};
    if (name == "depth2_stop") return {pos, "go depth 2", "stop", "isready"};
    if (name == "depth3_isready_stop") return {pos, "go depth 3", "isready", "stop"};
    return {};
}

static void judge(const std::string& sname, int a, int b, int bound, const ChildResult& r)
{
    ref::Pos root;
    ref::parse_fen(ARENA, root);
    auto w = [&]() {
        return mc::JObj().s("script", sname).n("arena", ARENA == ARENAS[1] ? 2 : 1).n("a", a).n("b", b).n("bound", bound).s("verdict", r.verdict).n("search_steps_after_stop", r.s_steps_after_stop)
            .n("search_steps_total", r.s_total).s("output", r.output.size() > 600 ? r.output.substr(r.output.size() - 600) : r.output);
    };
    int best = 0, ready = 0, garbled = 0;
    std::string bm;
    std::istringstream is(r.output);
    std::string l;
    while (std::getline(is, l))
    {
        if (l.rfind("bestmove", 0) == 0)
        {
            ++best;
            std::istringstream s(l);
            std::string x;
            s >> x >> bm;
        }
        if (l == "readyok") ++ready;
        else if (l.find("readyok") != std::string::npos) ++garbled;
    }
    std::string where = a == 0 ? "before_thread_runs" : a <= 3 ? "during_go_startup" : "during_search";
    if (r.verdict == "stop_lost_or_not_prompt")
        R.violation("C06:stop_lost_or_not_prompt:" + where, w());
    else if (r.verdict.rfind("blocked", 0) == 0 || r.verdict.rfind("deadlock", 0) == 0)
        R.violation("C06:" + r.verdict, w());
    else if (r.verdict != "ok")
        R.violation("C06:harness:" + r.verdict, w());
    else
    {
        if (best != 1) R.violation("C06:bestmove_count_" + std::to_string(best) + ":" + where, w());
        if (garbled) R.violation("C06:readyok_inside_another_output_line", w());
        else if (ready != 1) R.violation("C06:readyok_count_" + std::to_string(ready), w());
        ref::Mv m;
        std::vector<ref::Mv> lm;
        ref::gen_legal(root, lm);
        bool legal = false;
        for (auto& x : lm)
            if (ref::uci(x) == bm) legal = true;
        (void)m;
        if (best == 1 && !legal) R.violation("C06:illegal_bestmove_after_stop:" + where, w().s("bestmove", bm));
    }
    if (r.reader_waits) R.count("schedules_where_reader_waited_for_output_lock");
    R.outcome(r.verdict + "/" + std::to_string(r.s_steps_after_stop > 20 ? 99 : r.s_steps_after_stop) + "/" + bm);
    if (r.s_steps_after_stop > (long long)R.counters["max_steps_after_stop"]) R.counters["max_steps_after_stop"] = uint64_t(r.s_steps_after_stop);
}

int main(int argc, char** argv)
{
    std::string out, sname = "stop_isready", one;
    int n0 = 40, bound = 64, shard = 0, nsh = 1;
    for (int i = 1; i < argc; ++i)
    {
        std::string a = argv[i];
        if (a == "--out") out = argv[++i];
        else if (a == "--script") sname = argv[++i];
        else if (a == "--n0") n0 = atoi(argv[++i]);
        else if (a == "--bound") bound = atoi(argv[++i]);
        else if (a == "--one") one = argv[++i];
        else if (a == "--trace") g_want_trace = true;
        else if (a == "--arena") ARENA = ARENAS[atoi(argv[++i]) == 2 ? 1 : 0];
        else if (a == "--deadline") R.deadline_s = atof(argv[++i]);
        else if (a == "--tier") ++i;
        else if (a == "--shard")
        {
            std::string v = argv[++i];
            shard = atoi(v.c_str());
            nsh = atoi(v.substr(v.find('/') + 1).c_str());
        }
    }
    move_bitboards::init();
    zobrist::init();
    {
        std::mt19937_64 g(20260926);
        for (auto& row : PIECE_HASH)
            for (auto& v : row) v = g();
        for (auto& v : CASTLING_HASH) v = g();
        SIDE_HASH = g();
        for (auto& v : ENPASSANT_HASH) v = g();
    }
    bitbase::init();
    endgame::init();
    Uci uci;
    std::vector<std::string> script = script_of(sname);
    if (script.empty()) return 2;
    R.keep_per_class = 3;
    mc::Subspace sub;
    sub.name = "schedules " + sname + (ARENA == ARENAS[1] ? " (capture arena)" : " (KPK arena)");
    sub.bound = "every placement (a <= b <= " + std::to_string(n0) + ") of the reader thread's two commands among the search thread's first " + std::to_string(n0) +
                " hook steps; promptness bound " + std::to_string(bound) + " search-thread steps";
    if (!one.empty())
    {
        int a = atoi(one.c_str()), b = atoi(one.substr(one.find(',') + 1).c_str());
        g_want_trace = true;
        ChildResult r1 = run_schedule(uci, script, a, b, bound);
        ChildResult r2 = run_schedule(uci, script, a, b, bound);
        if (r1.trace != r2.trace || r1.verdict != r2.verdict)
        {
            fprintf(stderr, "NONDETERMINISTIC REPLAY\n%s\n%s\n", r1.trace.c_str(), r2.trace.c_str());
            return 3;
        }
        judge(sname, a, b, bound, r1);
        fprintf(stderr, "verdict %s after_stop %lld\ntrace %s\noutput:\n%s\n", r1.verdict.c_str(), r1.s_steps_after_stop, r1.trace.c_str(), r1.output.c_str());
        sub.states = 1;
        sub.exhaustive = true;
        R.subspaces.push_back(sub);
        return R.write(out) ? 0 : 2;
    }
    int idx = 0;
    bool complete = true;
    for (int a = 0; a <= n0 && complete; ++a)
        for (int b = a; b <= n0; ++b)
        {
            if ((idx++ % nsh) != shard) continue;
            if (R.out_of_time())
            {
                complete = false;
                break;
            }
            ChildResult r = run_schedule(uci, script, a, b, bound);
            judge(sname, a, b, bound, r);
            sub.states++;
            sub.transitions += uint64_t(r.s_total) + 4;
            if (sub.states == 2) R.sample(mc::JObj().s("script", sname).n("a", a).n("b", b).s("verdict", r.verdict).n("search_steps_after_stop", r.s_steps_after_stop).str());
        }
    sub.exhaustive = complete;
    R.subspaces.push_back(sub);
    return R.write(out) ? 0 : 2;
}
