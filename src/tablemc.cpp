// tablemc — exhaustive checks of the precomputed tables:
//   --prop C11 : attack tables vs coordinate geometry (all squares x all relevant occupancies x
//                irrelevant-bit patterns; leaper, pawn, line, ray, castling tables; shift<>)
//   --prop C12 : KPK knowledge vs an independent retrograde solve on refchess moves
#include "mc_common.h"
#include "refchess.h"
#include "spaces.h"

#include "bitboard.h"
#include "bithacks.h"
#include "endgame.h"
#include "move_bitboards.h"
#include "movegen.h"
#include "position.h"
#include "score.h"
#include "zobrist_hash.h"

using namespace engine;
static mc::Result R;

// ------------------------------------------------------------------------------------ C11
static uint64_t bit(int f, int r) { return 1ULL << (r * 8 + f); }
static bool onb(int f, int r) { return f >= 0 && f < 8 && r >= 0 && r < 8; }

static uint64_t ray_walk(int sq, uint64_t occ, bool diag, bool orth)
{
    static const int DF[8] = {1, 1, 0, -1, -1, -1, 0, 1}, DR[8] = {0, 1, 1, 1, 0, -1, -1, -1};
    uint64_t a = 0;
    for (int d = 0; d < 8; ++d)
    {
        bool is_diag = DF[d] != 0 && DR[d] != 0;
        if (is_diag ? !diag : !orth) continue;
        int f = (sq & 7) + DF[d], r = (sq >> 3) + DR[d];
        while (onb(f, r))
        {
            a |= bit(f, r);
            if (occ & bit(f, r)) break;  // first blocker inclusive
            f += DF[d];
            r += DR[d];
        }
    }
    return a;
}

static uint64_t relevant_mask(int sq, bool diag)
{
    // squares on the rays excluding the last square of each ray (its occupancy cannot matter)
    static const int DF[8] = {1, 1, 0, -1, -1, -1, 0, 1}, DR[8] = {0, 1, 1, 1, 0, -1, -1, -1};
    uint64_t m = 0;
    for (int d = 0; d < 8; ++d)
    {
        bool is_diag = DF[d] != 0 && DR[d] != 0;
        if (is_diag != diag) continue;
        int f = (sq & 7) + DF[d], r = (sq >> 3) + DR[d];
        while (onb(f, r) && onb(f + DF[d], r + DR[d]))
        {
            m |= bit(f, r);
            f += DF[d];
            r += DR[d];
        }
    }
    return m;
}

static void sq_violation(const std::string& cls, int sq, uint64_t occ, uint64_t got, uint64_t want)
{
    R.violation(cls, mc::JObj().n("square", sq).u("occupancy", occ).u("engine", got).u("geometry", want));
}

static void c11()
{
    mc::Subspace s1;
    s1.name = "slider attacks";
    s1.bound = "64 squares x every subset of the relevant blocker mask (5248 bishop + 102400 rook) x irrelevant bits {none, all others set} ; + every single irrelevant bit on {empty, full} relevant sets; queen = union";
    for (int sq = 0; sq < 64; ++sq)
        for (int diag = 0; diag < 2; ++diag)
        {
            uint64_t mask = relevant_mask(sq, diag);
            uint64_t emask = diag ? BISHOP_MASK[sq] : ROOK_MASK[sq];
            if (mask != emask) sq_violation(diag ? "C11:bishop_mask" : "C11:rook_mask", sq, 0, emask, mask);
            uint64_t sub = 0;
            do
            {
                for (int pat = 0; pat < 2; ++pat)
                {
                    uint64_t occ = pat == 0 ? sub : (sub | ~mask);
                    uint64_t want = ray_walk(sq, occ, diag, !diag);
                    uint64_t got = diag ? slider_attack<BISHOP>(Square(sq), occ) : slider_attack<ROOK>(Square(sq), occ);
                    s1.states++;
                    if (got != want) sq_violation(diag ? "C11:bishop_attack" : "C11:rook_attack", sq, occ, got, want);
                    // queen on the same occupancy
                    uint64_t wq = ray_walk(sq, occ, true, true);
                    uint64_t gq = slider_attack<QUEEN>(Square(sq), occ);
                    if (gq != wq) sq_violation("C11:queen_attack", sq, occ, gq, wq);
                    R.outcome(std::to_string(__builtin_popcountll(want)));
                }
                sub = (sub - mask) & mask;
            } while (sub);
            for (int b = 0; b < 64; ++b)
            {
                if (mask & (1ULL << b)) continue;
                for (uint64_t base : {uint64_t(0), mask})
                {
                    uint64_t occ = base | (1ULL << b);
                    uint64_t want = ray_walk(sq, occ, diag, !diag);
                    uint64_t got = diag ? slider_attack<BISHOP>(Square(sq), occ) : slider_attack<ROOK>(Square(sq), occ);
                    s1.states++;
                    if (got != want) sq_violation(diag ? "C11:bishop_attack:irrelevant_bit" : "C11:rook_attack:irrelevant_bit", sq, occ, got, want);
                }
            }
        }
    // a deterministic family of full 64-bit occupancies: every pair of set bits + complement
    for (int sq = 0; sq < 64; ++sq)
        for (int a = 0; a < 64; ++a)
            for (int b = a; b < 64; ++b)
                for (int inv = 0; inv < 2; ++inv)
                {
                    uint64_t occ = (1ULL << a) | (1ULL << b);
                    if (inv) occ = ~occ;
                    s1.states++;
                    uint64_t wq = ray_walk(sq, occ, true, true);
                    uint64_t gq = slider_attack<QUEEN>(Square(sq), occ);
                    if (gq != wq) sq_violation("C11:queen_attack:two_bit_occupancy", sq, occ, gq, wq);
                }
    s1.exhaustive = true;
    R.subspaces.push_back(s1);

    mc::Subspace s2;
    s2.name = "leaper, pawn, line, ray, castling tables, shift<>";
    s2.bound = "all 64 / 64x64 / 8x64 entries; shift on all single bits, rank/file masks and full board";
    static const int KNF[8] = {1, 2, 2, 1, -1, -2, -2, -1}, KNR[8] = {2, 1, -1, -2, -2, -1, 1, 2};
    static const int KF[8] = {1, 1, 0, -1, -1, -1, 0, 1}, KR[8] = {0, 1, 1, 1, 0, -1, -1, -1};
    for (int sq = 0; sq < 64; ++sq)
    {
        int f = sq & 7, r = sq >> 3;
        uint64_t kn = 0, kg = 0, wp = 0, bp = 0;
        for (int i = 0; i < 8; ++i)
        {
            if (onb(f + KNF[i], r + KNR[i])) kn |= bit(f + KNF[i], r + KNR[i]);
            if (onb(f + KF[i], r + KR[i])) kg |= bit(f + KF[i], r + KR[i]);
        }
        for (int df : {-1, 1})
        {
            if (onb(f + df, r + 1)) wp |= bit(f + df, r + 1);
            if (onb(f + df, r - 1)) bp |= bit(f + df, r - 1);
        }
        s2.states += 6;
        if (KNIGHT_MASK[sq] != kn) sq_violation("C11:knight_mask", sq, 0, KNIGHT_MASK[sq], kn);
        if (KING_MASK[sq] != kg) sq_violation("C11:king_mask", sq, 0, KING_MASK[sq], kg);
        if (king_attacks(1ULL << sq) != kg) sq_violation("C11:king_attacks", sq, 0, king_attacks(1ULL << sq), kg);
        if (pawn_attacks(1ULL << sq, WHITE) != wp) sq_violation("C11:pawn_attacks_white", sq, 0, pawn_attacks(1ULL << sq, WHITE), wp);
        if (pawn_attacks(1ULL << sq, BLACK) != bp) sq_violation("C11:pawn_attacks_black", sq, 0, pawn_attacks(1ULL << sq, BLACK), bp);
        if (pawn_attacks<WHITE>(1ULL << sq) != wp || pawn_attacks<BLACK>(1ULL << sq) != bp) sq_violation("C11:pawn_attacks_template", sq, 0, 0, 0);
        // rays: RAY_NW=0 N NE E SE S SW W
        static const int RF[8] = {-1, 0, 1, 1, 1, 0, -1, -1}, RR[8] = {1, 1, 1, 0, -1, -1, -1, 0};
        for (int d = 0; d < 8; ++d)
        {
            uint64_t w = 0;
            int ff = f + RF[d], rr = r + RR[d];
            while (onb(ff, rr))
            {
                w |= bit(ff, rr);
                ff += RF[d];
                rr += RR[d];
            }
            s2.states++;
            if (RAYS[d][sq] != w) sq_violation("C11:rays", sq, d, RAYS[d][sq], w);
        }
        if (pseudoattacks<BISHOP>(Square(sq)) != ray_walk(sq, 0, true, false)) sq_violation("C11:pseudoattacks_bishop", sq, 0, 0, 0);
        if (pseudoattacks<ROOK>(Square(sq)) != ray_walk(sq, 0, false, true)) sq_violation("C11:pseudoattacks_rook", sq, 0, 0, 0);
        if (pseudoattacks<QUEEN>(Square(sq)) != ray_walk(sq, 0, true, true)) sq_violation("C11:pseudoattacks_queen", sq, 0, 0, 0);
        for (int to = 0; to < 64; ++to)
        {
            int tf = to & 7, tr = to >> 3;
            int df = tf - f, dr = tr - r;
            bool aligned = (df == 0 || dr == 0 || abs(df) == abs(dr));
            uint64_t seg = 0, full = 0;
            if (aligned)
            {
                int sf = (df > 0) - (df < 0), sr = (dr > 0) - (dr < 0);
                int ff = f, rr = r;
                seg |= bit(ff, rr);
                while (ff != tf || rr != tr)
                {
                    ff += sf;
                    rr += sr;
                    seg |= bit(ff, rr);
                }
                if (sq != to)
                {
                    for (int k = -7; k <= 7; ++k)
                        if (onb(f + k * sf, r + k * sr)) full |= bit(f + k * sf, r + k * sr);
                }
            }
            s2.states += 2;
            if (LINES[sq][to] != seg) sq_violation("C11:lines", sq, to, LINES[sq][to], seg);
            if (FULL_LINES[sq][to] != full) sq_violation("C11:full_lines", sq, to, FULL_LINES[sq][to], full);
        }
    }
    // castling tables: squares the king crosses (must not be attacked or occupied), and the b-file square
    uint64_t wantp[16] = {0};
    wantp[W_OO] = bit(5, 0) | bit(6, 0);
    wantp[W_OOO] = bit(2, 0) | bit(3, 0);
    wantp[B_OO] = bit(5, 7) | bit(6, 7);
    wantp[B_OOO] = bit(2, 7) | bit(3, 7);
    for (int c : {int(W_OO), int(W_OOO), int(B_OO), int(B_OOO)})
    {
        s2.states++;
        if (CASTLING_PATHS[c] != wantp[c]) sq_violation("C11:castling_paths", c, 0, CASTLING_PATHS[c], wantp[c]);
    }
    if (QUEEN_CASTLING_BLOCK[WHITE] != bit(1, 0)) sq_violation("C11:queen_castling_block", 0, 0, QUEEN_CASTLING_BLOCK[WHITE], bit(1, 0));
    if (QUEEN_CASTLING_BLOCK[BLACK] != bit(1, 7)) sq_violation("C11:queen_castling_block", 1, 0, QUEEN_CASTLING_BLOCK[BLACK], bit(1, 7));
    // shift<> on single bits, rank and file masks, full board
    std::vector<uint64_t> inputs;
    for (int i = 0; i < 64; ++i) inputs.push_back(1ULL << i);
    for (int i = 0; i < 8; ++i)
    {
        inputs.push_back(0xFFULL << (8 * i));
        inputs.push_back(0x0101010101010101ULL << i);
    }
    inputs.push_back(~0ULL);
    inputs.push_back(0);
    struct D
    {
        Direction d;
        int df, dr;
    } dirs[] = {{NORTH, 0, 1}, {EAST, 1, 0}, {SOUTH, 0, -1}, {WEST, -1, 0}, {NORTHEAST, 1, 1}, {NORTHWEST, -1, 1},
                {SOUTHEAST, 1, -1}, {SOUTHWEST, -1, -1}, {DOUBLENORTH, 0, 2}, {DOUBLESOUTH, 0, -2}};
    for (uint64_t in : inputs)
        for (auto& d : dirs)
        {
            uint64_t want = 0;
            for (int sq = 0; sq < 64; ++sq)
                if ((in >> sq) & 1)
                {
                    int f = (sq & 7) + d.df, r = (sq >> 3) + d.dr;
                    if (onb(f, r)) want |= bit(f, r);
                }
            uint64_t got = shift(in, d.d);
            uint64_t got2 = d.d == NORTH ? shift<NORTH>(in) : d.d == EAST ? shift<EAST>(in) : d.d == SOUTH ? shift<SOUTH>(in)
                          : d.d == WEST ? shift<WEST>(in) : d.d == NORTHEAST ? shift<NORTHEAST>(in)
                          : d.d == NORTHWEST ? shift<NORTHWEST>(in) : d.d == SOUTHEAST ? shift<SOUTHEAST>(in)
                          : d.d == SOUTHWEST ? shift<SOUTHWEST>(in) : d.d == DOUBLENORTH ? shift<DOUBLENORTH>(in)
                                                                                         : shift<DOUBLESOUTH>(in);
            s2.states++;
            if (got != want || got2 != want) sq_violation("C11:shift", int(d.d), in, got, want);
        }
    // bit helpers on all single bits / pairs
    for (int a = 0; a < 64; ++a)
        for (int b = a; b < 64; ++b)
        {
            uint64_t v = (1ULL << a) | (1ULL << b);
            s2.states++;
            if (lsb(v) != a || msb(v) != b || popcount(v) != (a == b ? 1 : 2) || popcount_more_than_one(v) != (a != b))
                sq_violation("C11:bithacks", a, v, 0, 0);
            uint64_t w = v;
            if (int(pop_lsb(&w)) != a || w != (a == b ? 0 : (1ULL << b))) sq_violation("C11:pop_lsb", a, v, w, 0);
        }
    s2.exhaustive = true;
    R.subspaces.push_back(s2);
    R.sample(mc::JObj().n("square", 27).u("occupancy", 0x0000001008000000ULL).u("rook_attack", slider_attack<ROOK>(Square(27), 0x0000001008000000ULL)).str());
}

// ------------------------------------------------------------------------------------ C12
// Generic retrograde "white wins" over K + one white man v k, built only from refchess moves.
struct Table
{
    char man;                       // 'Q','R','P'
    std::vector<uint8_t> win;       // index (stm, wk, bk, x)
    static int idx(int stm, int wk, int bk, int x) { return ((stm * 64 + wk) * 64 + bk) * 64 + x; }
};

static bool build_pos(char man, int stm, int wk, int bk, int x, ref::Pos& p)
{
    if (wk == bk || wk == x || bk == x) return false;
    std::memset(p.b, '.', 64);
    p.b[wk] = 'K';
    p.b[bk] = 'k';
    p.b[x] = man;
    p.stm = stm;
    p.cr = 0;
    p.ep = -1;
    p.hmc = 0;
    p.fmn = 1;
    return ref::retro_ok(p);
}

// successor encoding: >=0 table index in same table; -1 draw (capture / stalemate / minor promo);
// -2 immediate white win (black mated); -3-k: promotion into table k (0=Q,1=R) followed by index
struct Succ
{
    int kind;  // 0 same table, 1 draw, 2 into Q table, 3 into R table
    int index;
};

static void locate(const ref::Pos& t, char man, int& wk, int& bk, int& x)
{
    wk = bk = x = -1;
    for (int s = 0; s < 64; ++s)
    {
        if (t.b[s] == 'K') wk = s;
        else if (t.b[s] == 'k') bk = s;
        else if (t.b[s] == man) x = s;
    }
}

static Table solve(char man, const Table* tq, const Table* tr)
{
    Table T;
    T.man = man;
    T.win.assign(2 * 64 * 64 * 64, 0);
    std::vector<uint8_t> legal(T.win.size(), 0), mated(T.win.size(), 0);
    std::vector<std::vector<Succ>> succ(T.win.size());
    ref::Pos p, t;
    for (int stm = 0; stm < 2; ++stm)
        for (int wk = 0; wk < 64; ++wk)
            for (int bk = 0; bk < 64; ++bk)
                for (int x = 0; x < 64; ++x)
                {
                    if (!build_pos(man, stm, wk, bk, x, p)) continue;
                    int i = Table::idx(stm, wk, bk, x);
                    legal[i] = 1;
                    std::vector<ref::Mv> ms;
                    ref::gen_legal(p, ms);
                    if (ms.empty())
                    {
                        if (stm == ref::BLACK && ref::in_check(p, ref::BLACK)) mated[i] = 1;
                        continue;
                    }
                    for (auto& m : ms)
                    {
                        ref::make(p, m, t);
                        int a, b, c;
                        if (m.promo)
                        {
                            if (m.promo == 'q' || m.promo == 'r')
                            {
                                locate(t, m.promo == 'q' ? 'Q' : 'R', a, b, c);
                                succ[i].push_back({m.promo == 'q' ? 2 : 3, Table::idx(t.stm, a, b, c)});
                            }
                            else
                                succ[i].push_back({1, 0});
                            continue;
                        }
                        locate(t, man, a, b, c);
                        if (c < 0)
                            succ[i].push_back({1, 0});  // the man was captured: bare kings
                        else
                            succ[i].push_back({0, Table::idx(t.stm, a, b, c)});
                    }
                }
    // least fix-point
    bool changed = true;
    int rounds = 0;
    while (changed)
    {
        changed = false;
        ++rounds;
        for (size_t i = 0; i < T.win.size(); ++i)
        {
            if (!legal[i] || T.win[i]) continue;
            int stm = int(i / (64 * 64 * 64));
            bool w;
            if (stm == ref::BLACK)
            {
                if (mated[i])
                    w = true;
                else if (succ[i].empty())
                    w = false;  // stalemate
                else
                {
                    w = true;
                    for (auto& s : succ[i])
                    {
                        bool sw = s.kind == 0 ? T.win[s.index] : s.kind == 2 ? tq->win[s.index] : s.kind == 3 ? tr->win[s.index] : false;
                        if (!sw)
                        {
                            w = false;
                            break;
                        }
                    }
                }
            }
            else
            {
                w = false;
                for (auto& s : succ[i])
                {
                    bool sw = s.kind == 0 ? T.win[s.index] : s.kind == 2 ? tq->win[s.index] : s.kind == 3 ? tr->win[s.index] : false;
                    if (sw)
                    {
                        w = true;
                        break;
                    }
                }
            }
            if (w)
            {
                T.win[i] = 1;
                changed = true;
            }
        }
    }
    R.count(std::string("retrograde_rounds_") + man, rounds);
    uint64_t nwin = 0, nlegal = 0;
    for (size_t i = 0; i < T.win.size(); ++i)
    {
        nwin += T.win[i];
        nlegal += legal[i];
    }
    R.count(std::string("solver_legal_") + man, nlegal);
    R.count(std::string("solver_wins_") + man, nwin);
    return T;
}

static void c12()
{
    Table tq = solve('Q', nullptr, nullptr);
    Table tr = solve('R', nullptr, nullptr);
    // sanity of the solver itself: every KQK / KRK position with white to move is won, unless
    // the piece is en prise to the bare king with... (no: white to move can always save it or it is a draw?)
    Table tp = solve('P', &tq, &tr);
    PositionScorer scorer;
    mc::Subspace sub;
    sub.name = "KPK all legal positions, both pawn colours, both sides to move";
    sub.bound = "2 x 2 x 64 x 64 x 48 index tuples filtered by retro-legality";
    ref::Pos p;
    for (int colour = 0; colour < 2; ++colour)
        for (int stm = 0; stm < 2; ++stm)
            for (int wk = 0; wk < 64; ++wk)
                for (int bk = 0; bk < 64; ++bk)
                    for (int x = 8; x < 56; ++x)
                    {
                        // white-pawn position; for colour==1 the checked position is its colour mirror
                        if (!build_pos('P', stm, wk, bk, x, p)) continue;
                        bool truth = tp.win[Table::idx(stm, wk, bk, x)];
                        ref::Pos q = colour == 0 ? p : ref::mirror(p);
                        int strong = colour == 0 ? ref::WHITE : ref::BLACK;
                        sub.states++;
                        // seam 1: bitbase after normalize
                        Color side = q.stm == ref::WHITE ? WHITE : BLACK;
                        Square sk = Square(ref::king_sq(q, strong)), wkq = Square(ref::king_sq(q, 1 - strong));
                        int pawn_sq = -1;
                        for (int s = 0; s < 64; ++s)
                            if (q.b[s] == 'P' || q.b[s] == 'p') pawn_sq = s;
                        Square sp = Square(pawn_sq);
                        bitbase::normalize(strong == ref::WHITE ? WHITE : BLACK, side, sk, sp, wkq);
                        bool bb = bitbase::check(side, sk, sp, wkq);
                        // seam 2: the evaluator
                        Position e(ref::fen(q));
                        Value v = scorer.score(e);
                        Value from_strong = (q.stm == strong) ? v : -v;
                        bool evw = from_strong >= VALUE_KNOWN_WIN;
                        bool evd = std::llabs(v) < VALUE_KNOWN_WIN;
                        sub.transitions += 2;
                        auto cls = [&](const char* seam, bool eng) {
                            std::string c = std::string("C12:") + seam + (eng ? ":engine=win:truth=draw" : ":engine=draw:truth=win");
                            if (eng && !truth)
                            {
                                // classifier detail: pawn on its start rank and a king directly in front of it
                                int f = x & 7, r = x >> 3;
                                bool start = r == 1;
                                bool king_front = start && (wk == (r + 1) * 8 + f || bk == (r + 1) * 8 + f);
                                c += start ? (king_front ? ":pawn_on_start_rank_king_in_front" : ":pawn_on_start_rank") : ":other";
                            }
                            return c;
                        };
                        if (bb != truth) R.violation(cls("bitbase", bb), mc::JObj().s("fen", ref::fen(q)));
                        if (evw != truth || (!evw && !evd)) R.violation(cls("evaluation", evw), mc::JObj().s("fen", ref::fen(q)).n("score", v));
                        R.outcome(std::string(truth ? "W" : "D") + (stm ? "b" : "w") + char('a' + (x & 7)));
                        if (sub.states == 1000) R.sample(mc::JObj().s("fen", ref::fen(q)).b("truth_win", truth).b("bitbase", bb).n("score", v).str());
                    }
    sub.exhaustive = true;
    R.subspaces.push_back(sub);
}

int main(int argc, char** argv)
{
    std::string prop, out;
    for (int i = 1; i < argc; ++i)
    {
        std::string a = argv[i];
        if (a == "--prop") prop = argv[++i];
        else if (a == "--out") out = argv[++i];
        else if (a == "--deadline") R.deadline_s = atof(argv[++i]);
    }
    move_bitboards::init();
    zobrist::init();
    bitbase::init();
    endgame::init();
    if (prop == "C11") c11();
    else if (prop == "C12") c12();
    else return 2;
    return R.write(out) ? 0 : 2;
}
