// Shared helpers of the explorers: result record (JSON), violation classes, samples.
#ifndef VERIF_MC_COMMON_H
#define VERIF_MC_COMMON_H

#include <cstdint>
#include <cstdio>
#include <cstdlib>
#include <map>
#include <set>
#include <string>
#include <vector>
#include <chrono>

namespace mc
{
inline std::string jesc(const std::string& s)
{
    std::string o;
    for (unsigned char c : s)
    {
        if (c == '"' || c == '\\')
        {
            o += '\\';
            o += char(c);
        }
        else if (c == '\n')
            o += "\\n";
        else if (c < 32)
        {
            char buf[8];
            snprintf(buf, sizeof buf, "\\u%04x", c);
            o += buf;
        }
        else
            o += char(c);
    }
    return o;
}

// a flat JSON object built from key/value pairs (values already JSON or plain strings)
struct JObj
{
    std::string body;
    JObj& s(const std::string& k, const std::string& v)
    {
        sep();
        body += "\"" + jesc(k) + "\":\"" + jesc(v) + "\"";
        return *this;
    }
    JObj& n(const std::string& k, long long v)
    {
        sep();
        body += "\"" + jesc(k) + "\":" + std::to_string(v);
        return *this;
    }
    JObj& u(const std::string& k, unsigned long long v)
    {
        sep();
        body += "\"" + jesc(k) + "\":" + std::to_string(v);
        return *this;
    }
    JObj& b(const std::string& k, bool v)
    {
        sep();
        body += "\"" + jesc(k) + "\":" + (v ? "true" : "false");
        return *this;
    }
    JObj& raw(const std::string& k, const std::string& json)
    {
        sep();
        body += "\"" + jesc(k) + "\":" + json;
        return *this;
    }
    std::string str() const { return "{" + body + "}"; }

  private:
    void sep()
    {
        if (!body.empty()) body += ",";
    }
};

inline std::string jlist(const std::vector<std::string>& items, bool quote)
{
    std::string o = "[";
    for (size_t i = 0; i < items.size(); ++i)
    {
        if (i) o += ",";
        o += quote ? "\"" + jesc(items[i]) + "\"" : items[i];
    }
    return o + "]";
}

struct Subspace
{
    std::string name, bound;
    uint64_t states = 0, transitions = 0;
    bool exhaustive = false;
};

struct Result
{
    std::vector<Subspace> subspaces;
    std::map<std::string, uint64_t> counters;          // summed by the driver
    std::map<std::string, uint64_t> vclass;            // violation class -> count (complete)
    std::map<std::string, int> vkept;                  // kept records per class
    std::vector<std::string> violations;               // JSON objects, <= keep_per_class each
    std::vector<std::string> samples;                  // JSON values
    std::set<std::string> outcomes;                    // distinct outcome fingerprints (capped)
    int keep_per_class = 5;
    size_t max_samples = 6;
    size_t max_outcomes = 2000;
    std::chrono::steady_clock::time_point t0 = std::chrono::steady_clock::now();
    double deadline_s = 1e18;

    bool out_of_time() const
    {
        return std::chrono::duration<double>(std::chrono::steady_clock::now() - t0).count() > deadline_s;
    }

    void count(const std::string& k, uint64_t d = 1) { counters[k] += d; }
    void outcome(const std::string& s)
    {
        if (outcomes.size() < max_outcomes) outcomes.insert(s);
    }
    void sample(const std::string& json)
    {
        if (samples.size() < max_samples) samples.push_back(json);
    }
    // cls: narrow machine-readable class; detail: JSON object string with the witness
    void violation(const std::string& cls, const JObj& detail)
    {
        vclass[cls]++;
        if (vkept[cls] < keep_per_class)
        {
            vkept[cls]++;
            JObj o;
            o.s("class", cls).raw("detail", detail.str());
            violations.push_back(o.str());
        }
    }
    uint64_t total_violations() const
    {
        uint64_t n = 0;
        for (auto& kv : vclass) n += kv.second;
        return n;
    }

    bool write(const std::string& path) const
    {
        FILE* f = fopen(path.c_str(), "w");
        if (!f) return false;
        std::vector<std::string> subs;
        uint64_t st = 0, tr = 0;
        for (auto& s : subspaces)
        {
            JObj o;
            o.s("name", s.name).s("bound", s.bound).u("states", s.states).u("transitions", s.transitions).b("exhaustive", s.exhaustive);
            subs.push_back(o.str());
            st += s.states;
            tr += s.transitions;
        }
        JObj cnt, vc;
        for (auto& kv : counters) cnt.u(kv.first, kv.second);
        for (auto& kv : vclass) vc.u(kv.first, kv.second);
        std::vector<std::string> outs(outcomes.begin(), outcomes.end());
        JObj top;
        top.raw("subspaces", jlist(subs, false))
            .u("states", st)
            .u("transitions", tr)
            .raw("counters", cnt.str())
            .raw("violation_classes", vc.str())
            .raw("violations", jlist(violations, false))
            .raw("samples", jlist(samples, false))
            .raw("outcomes", jlist(outs, true));
        fputs(top.str().c_str(), f);
        fputc('\n', f);
        fclose(f);
        return true;
    }
};

inline uint64_t fnv1a(const std::string& s)
{
    uint64_t h = 1469598103934665603ULL;
    for (unsigned char c : s)
    {
        h ^= c;
        h *= 1099511628211ULL;
    }
    return h;
}

}  // namespace mc

#endif
