// timemc — C20: full lattice of clock states through TimeManager::calculateTime
//   timemc --tier quick|thorough --shard i/n --out f.json
#include "mc_common.h"
#include "time_manager.h"
#include "types.h"

#include <vector>

using namespace engine;
static mc::Result R;

int main(int argc, char** argv)
{
    std::string out, tier = "quick";
    int shard = 0, nsh = 1;
    for (int i = 1; i < argc; ++i)
    {
        std::string a = argv[i];
        if (a == "--out") out = argv[++i];
        else if (a == "--tier") tier = argv[++i];
        else if (a == "--deadline") R.deadline_s = atof(argv[++i]);
        else if (a == "--shard")
        {
            std::string v = argv[++i];
            shard = atoi(v.c_str());
            nsh = atoi(v.substr(v.find('/') + 1).c_str());
        }
    }
    bool q = tier == "quick";
    std::vector<long long> times;
    for (int t = 0; t <= 3000; ++t) times.push_back(t);
    double g = 4000;
    while (g <= 86400000.0 * 1.5)
    {
        long long b = (long long)g;
        if (b > 86400000) b = 86400000;
        for (long long d : {-1LL, 0LL, 1LL})
            if (b + d > 3000 && b + d <= 86400000) times.push_back(b + d);
        if (b == 86400000) break;
        g *= 1.5;
    }
    std::sort(times.begin(), times.end());
    times.erase(std::unique(times.begin(), times.end()), times.end());
    std::vector<int> incs = {0, 1, 10, 100, 1000, 5000, 60000, 600000};
    std::vector<int> mtgs, plies;
    if (q)
    {
        mtgs = {0, 1, 2, 3, 5, 10, 20, 30, 40, 49, 50, 51, 200};
        plies = {0, 1, 2, 10, 40, 64, 65, 100, 129, 200, 500, 1000};
    }
    else
    {
        for (int m = 0; m <= 200; ++m)
            if (m <= 60 || m % 10 == 0) mtgs.push_back(m);
        for (int p = 0; p <= 200; ++p)
            if (p <= 20 || p % 4 == 0) plies.push_back(p);
        for (int p : {250, 400, 500, 799, 800, 1000}) plies.push_back(p);
    }
    mc::Subspace sub;
    sub.name = "clock lattice shard " + std::to_string(shard) + "/" + std::to_string(nsh);
    sub.bound = "T in {0..3000} u {floor(4000*1.5^i)+{-1,0,1}} <= 24h; inc in {0,1,10,100,1000,5000,60000,600000}; " +
                std::to_string(mtgs.size()) + " movestogo values; " + std::to_string(plies.size()) + " ply values; both colours";
    int job = 0;
    bool complete = true;
    for (int colour = 0; colour < 2 && complete; ++colour)
        for (int inc : incs)
            for (int mtg : mtgs)
            {
                if ((job++ % nsh) != shard) continue;
                if (R.out_of_time())
                {
                    complete = false;
                    break;
                }
                for (int ply : plies)
                {
                    long long prev = -1, prevT = -1;
                    for (long long T : times)
                    {
                        Limits l;
                        Color side = colour ? BLACK : WHITE;
                        l.timeleft[side] = int(T);
                        l.timeinc[side] = inc;
                        // the other clock is made very different so that reading the wrong one shows
                        l.timeleft[!side] = int(std::min<long long>(T * 10 + 100000, 2000000000LL));
                        l.timeinc[!side] = inc * 7 + 12345;
                        l.movestogo = mtg;
                        long long t = TimeManager::calculateTime(l, side, ply);
                        sub.states++;
                        auto w = [&]() {
                            return mc::JObj().n("time_ms", T).n("inc_ms", inc).n("movestogo", mtg).n("ply", ply).s("colour", colour ? "black" : "white").n("allotted", t);
                        };
                        if (t < 0) R.violation("C20:negative", w());
                        if (10 * t > 7 * T) R.violation("C20:above_70_percent", w());
                        if (prev >= 0 && t < prev) R.violation("C20:not_monotone", w().n("previous_time_ms", prevT).n("previous_allotted", prev));
                        if (prev >= 0) sub.transitions++;
                        prev = t;
                        prevT = T;
                        if ((sub.states & 0xFFF) == 1) R.outcome(std::to_string(T ? (100 * t / T) : 0));
                        if (sub.states == 5000) R.sample(w().str());
                    }
                }
            }
    sub.exhaustive = complete;
    R.subspaces.push_back(sub);
    return R.write(out) ? 0 : 2;
}
