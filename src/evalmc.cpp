// evalmc — static evaluation: colour symmetry (C13), purity and bounds (C14)
//   evalmc --prop C13 --space sig|...  --space bfs|fen|d ...
//   evalmc --prop C14 --space purity|L|shard/n  --space sig|... (bounds)
#include "mc_common.h"
#include "refchess.h"
#include "spaces.h"

#include "endgame.h"
#include "movegen.h"
#include "position.h"
#include "score.h"
#include "zobrist_hash.h"

#include <unordered_set>

using namespace engine;
static mc::Result R;
static std::string PROP;
static PositionScorer* g_scorer;

template <class T>
struct MapSize;
template <class K, class V, std::size_t N>
struct MapSize<HashMap<K, V, N>>
{
    static constexpr std::size_t value = N;
};
static const uint64_t PAWN_SLOTS = MapSize<PawnHashMap>::value;

static std::string sigclass(const ref::Pos& p)
{
    // material signature, strong side first (for classification of violations)
    std::string w, b;
    for (const char* k = "QRBNP"; *k; ++k)
        for (int s = 0; s < 64; ++s)
        {
            if (p.b[s] == *k) w += *k;
            if (p.b[s] == *k + 32) b += *k;
        }
    if (w.size() < b.size() || (w.size() == b.size() && w < b)) std::swap(w, b);
    return "K" + w + "K" + b;
}

static std::vector<std::string> g_recent;   // FENs evaluated most recently on the long-lived evaluator

static bool bound_ok(Value v) { return v > -win_in(MAX_DEPTH) && v < win_in(MAX_DEPTH) && v != VALUE_NONE; }

static void eval_state(const ref::Pos& p)
{
    if (ref::insufficient(p)) return;
    Position e(ref::fen(p));
    Value v = g_scorer->score(e);
    if (PROP == "C13")
    {
        ref::Pos m = ref::mirror(p);
        Position em(ref::fen(m));
        Value vm = g_scorer->score(em);
        R.count("pairs");
        if (v != vm)
        {
            // does it also differ on a fresh evaluator? if not, the asymmetry comes from evaluator state
            PositionScorer fresh1, fresh2;
            Value f1 = fresh1.score(e), f2 = fresh2.score(em);
            if (f1 != f2)
                R.violation("C13:asymmetric:" + sigclass(p), mc::JObj().s("fen", ref::fen(p)).s("mirror_fen", ref::fen(m)).n("score", v).n("mirror_score", vm));
            else
                R.violation("C13:asymmetric_after_history:" + sigclass(p),
                            mc::JObj().s("fen", ref::fen(p)).s("mirror_fen", ref::fen(m)).n("score", v).n("mirror_score", vm).n("fresh_score", f1)
                                .raw("evaluated_before", mc::jlist(g_recent, true)));
        }
        g_recent.push_back(ref::fen(p));
        g_recent.push_back(ref::fen(m));
        if (g_recent.size() > 4) g_recent.erase(g_recent.begin(), g_recent.begin() + 2);
        if ((R.counters["pairs"] & 0x3FF) == 1) R.outcome(std::to_string(v));
    }
    else
    {
        R.count("evaluations");
        if (!bound_ok(v)) R.violation("C14:out_of_range:" + sigclass(p), mc::JObj().s("fen", ref::fen(p)).n("score", v));
        if ((R.counters["evaluations"] & 0x3FF) == 1) R.outcome(std::to_string(v));
    }
}

static std::vector<std::string> split(const std::string& s, char d)
{
    std::vector<std::string> v;
    size_t a = 0;
    while (true)
    {
        size_t b = s.find(d, a);
        v.push_back(s.substr(a, b == std::string::npos ? std::string::npos : b - a));
        if (b == std::string::npos) break;
        a = b + 1;
    }
    return v;
}

static void run_sig(const std::string& spec)
{
    spaces::SigSpec sp;
    if (!spaces::parse_sig(spec, sp)) exit(2);
    mc::Subspace sub;
    sub.name = "sig " + spec;
    sub.bound = "every retro-legal placement of the signature with sufficient material, each evaluated together with its colour mirror";
    bool done = spaces::enumerate_sig(sp, [&](const ref::Pos& p) {
        eval_state(p);
        sub.states++;
        if (sub.states == 1) R.sample(mc::JObj().s("fen", ref::fen(p)).s("space", sub.name).str());
        return (sub.states & 1023) || !R.out_of_time();
    });
    sub.transitions = sub.states;
    sub.exhaustive = done;
    R.subspaces.push_back(sub);
}

static void run_bfs(const std::string& fen, int depth)
{
    mc::Subspace sub;
    sub.name = "bfs " + fen;
    sub.bound = "all canonical states within " + std::to_string(depth) + " plies";
    ref::Pos root;
    ref::parse_fen(fen, root);
    std::unordered_set<std::string> seen;
    std::vector<ref::Pos> frontier{root}, next;
    seen.insert(ref::identity(root));
    bool complete = true;
    for (int d = 0; d <= depth && complete; ++d)
    {
        next.clear();
        for (auto& p : frontier)
        {
            if (R.out_of_time())
            {
                complete = false;
                break;
            }
            eval_state(p);
            sub.states++;
            if (d == depth) continue;
            std::vector<ref::Mv> legal;
            ref::gen_legal(p, legal);
            ref::Pos t;
            for (auto& m : legal)
            {
                ref::make(p, m, t);
                sub.transitions++;
                if (seen.insert(ref::identity(t)).second) next.push_back(t);
            }
        }
        frontier.swap(next);
    }
    if (PROP == "C14")
    {
        // order independence: the same positions evaluated in two different orders on two long-lived
        // evaluators (every position gets a different predecessor), and every 16th on a fresh one
        std::vector<std::string> fens(seen.begin(), seen.end());
        std::sort(fens.begin(), fens.end());
        if (fens.size() > 60000) fens.resize(60000);
        PositionScorer A, B;
        std::vector<Value> va(fens.size());
        for (size_t i = 0; i < fens.size(); ++i)
        {
            Position e(fens[i] + " 0 1");
            va[i] = A.score(e);
        }
        for (size_t k = 0; k < fens.size(); ++k)
        {
            size_t i = fens.size() - 1 - k;
            ref::Pos rp;
            ref::parse_fen(fens[i] + " 0 1", rp);
            if (ref::insufficient(rp)) continue;
            Position e(fens[i] + " 0 1");
            Value vb = B.score(e);
            R.count("order_pairs");
            sub.transitions++;
            bool bad = vb != va[i];
            Value vf = vb;
            if (!bad && (i % 16) == 0)
            {
                PositionScorer fresh;
                vf = fresh.score(e);
                R.count("fresh_references");
                bad = vf != vb;
            }
            if (bad)
                R.violation("C14:impure:depends_on_previous_evaluations:" + sigclass(rp),
                            mc::JObj().s("fen", fens[i] + " 0 1").n("score_forward_order", va[i]).n("score_reverse_order", vb).n("score_fresh", vf)
                                .s("previous_in_forward_order", i ? fens[i - 1] + " 0 1" : "").s("previous_in_reverse_order", i + 1 < fens.size() ? fens[i + 1] + " 0 1" : ""));
        }
    }
    sub.exhaustive = complete;
    R.sample(mc::JObj().s("fen", fen).s("space", sub.name).str());
    R.subspaces.push_back(sub);
}

// replay of a history-dependent C13 witness: evaluate the listed positions in order on one evaluator,
// the last one together with its mirror
static void run_seq(const std::string& fens)
{
    mc::Subspace sub;
    sub.name = "seq";
    sub.bound = "one given evaluation sequence";
    std::vector<std::string> v = split(fens, ';');
    for (size_t i = 0; i + 1 < v.size(); ++i)
    {
        Position e(v[i]);
        g_scorer->score(e);
    }
    ref::Pos p;
    ref::parse_fen(v.back(), p);
    eval_state(p);
    sub.states = v.size();
    sub.exhaustive = true;
    R.subspaces.push_back(sub);
}

// C14: same pawn structure, every placement of the other pieces. Two long-lived evaluators see each
// group of equal pawn structure in opposite orders: with a transparent pawn cache the value of a
// position cannot depend on which member of its group filled the cache.
static void run_pawngroup(const std::string& spec)
{
    spaces::SigSpec sp;
    if (!spaces::parse_sig(spec, sp)) exit(2);
    mc::Subspace sub;
    sub.name = "pawngroup " + spec;
    sub.bound = "every retro-legal placement of the signature, grouped by pawn structure; evaluator A sees each group in enumeration order, evaluator B in reverse order";
    PositionScorer A, B;
    std::vector<ref::Pos> group;
    std::string cur;
    auto flush = [&]() {
        if (group.empty()) return;
        std::vector<Value> va(group.size()), vb(group.size());
        for (size_t i = 0; i < group.size(); ++i)
        {
            Position e(ref::fen(group[i]));
            va[i] = A.score(e);
        }
        for (size_t i = group.size(); i-- > 0;)
        {
            Position e(ref::fen(group[i]));
            vb[i] = B.score(e);
        }
        for (size_t i = 0; i < group.size(); ++i)
        {
            sub.transitions += 2;
            if (va[i] != vb[i])
            {
                R.violation("C14:impure:pawn_cache_depends_on_pieces:" + sigclass(group[i]),
                            mc::JObj().s("fen", ref::fen(group[i])).n("score_in_order", va[i]).n("score_reverse_order", vb[i])
                                .s("group_first", ref::fen(group.front())).s("group_last", ref::fen(group.back())));
                break;
            }
            if (!bound_ok(va[i])) R.violation("C14:out_of_range:" + sigclass(group[i]), mc::JObj().s("fen", ref::fen(group[i])).n("score", va[i]));
        }
        R.count("pawn_groups");
        R.count("evaluations", group.size() * 2);
        if ((R.counters["pawn_groups"] & 0xFF) == 1 && !group.empty()) R.outcome(std::to_string(va[0]));
        group.clear();
    };
    bool done = spaces::enumerate_sig(sp, [&](const ref::Pos& p) {
        if (ref::insufficient(p)) return true;
        std::string key;
        for (int s = 0; s < 64; ++s)
            if (p.b[s] == 'P' || p.b[s] == 'p') key += char(33 + s), key += p.b[s];
        if (key != cur)
        {
            flush();
            cur = key;
        }
        group.push_back(p);
        sub.states++;
        if (sub.states == 1) R.sample(mc::JObj().s("fen", ref::fen(p)).s("space", sub.name).str());
        return (sub.states & 1023) || !R.out_of_time();
    });
    flush();
    sub.exhaustive = done;
    R.subspaces.push_back(sub);
}

// C14: every placement of a small signature; evaluator A is long-lived (its pawn cache was filled by
// whichever position with the same pawn structure came first), evaluator B is cleared before every
// single evaluation (always a cache miss). A transparent cache gives A == B everywhere.
static void run_pawnpure(const std::string& spec)
{
    spaces::SigSpec sp;
    if (!spaces::parse_sig(spec, sp)) exit(2);
    mc::Subspace sub;
    sub.name = "pawnpure " + spec;
    sub.bound = "every retro-legal placement (pawns are the outer loops, so equal pawn structures are adjacent): long-lived evaluator vs an evaluator cleared before each call";
    PositionScorer A, B;
    bool done = spaces::enumerate_sig(sp, [&](const ref::Pos& p) {
        if (ref::insufficient(p)) return true;
        Position e(ref::fen(p));
        if (endgame::score(e) != VALUE_NONE) return true;   // specialised endgames do not use the pawn cache
        Value va = A.score(e);
        B.clear();
        Value vb = B.score(e);
        sub.states++;
        sub.transitions += 2;
        R.count("evaluations", 2);
        R.count("cleared_evaluations");
        if (va != vb)
            R.violation("C14:impure:pawn_cache_depends_on_pieces:" + sigclass(p), mc::JObj().s("fen", ref::fen(p)).n("score_long_lived", va).n("score_after_clear", vb));
        if ((sub.states & 0x3FF) == 1) R.outcome(std::to_string(va));
        if (sub.states == 1) R.sample(mc::JObj().s("fen", ref::fen(p)).s("space", sub.name).str());
        return (sub.states & 255) || !R.out_of_time();
    });
    sub.exhaustive = done;
    R.subspaces.push_back(sub);
}

// ------------------------------------------------------------------------------------ purity
struct Structure
{
    std::vector<std::pair<char, int>> pawns;
    uint64_t key;
};

static std::string make_fen(const Structure& s, int pieceset, int stm)
{
    ref::Pos p;
    std::memset(p.b, '.', 64);
    for (auto& pw : s.pawns) p.b[pw.second] = pw.first;
    if (pieceset == 0)
    {
        p.b[0] = 'K'; p.b[1] = 'R'; p.b[2] = 'Q';
        p.b[63] = 'k'; p.b[62] = 'r'; p.b[61] = 'q';
    }
    else if (pieceset == 1)
    {
        p.b[0] = 'K'; p.b[2] = 'R'; p.b[4] = 'Q'; p.b[6] = 'N';
        p.b[63] = 'k'; p.b[61] = 'r'; p.b[59] = 'q'; p.b[57] = 'b';
    }
    else
    {
        p.b[7] = 'K'; p.b[3] = 'Q'; p.b[5] = 'B';
        p.b[56] = 'k'; p.b[60] = 'q'; p.b[58] = 'n'; p.b[59] = 'r';
    }
    p.stm = stm; p.cr = 0; p.ep = -1; p.hmc = 0; p.fmn = 1;
    if (!ref::retro_ok(p)) return "";
    return ref::fen(p);
}

static void run_purity(int L, int shard, int nsh)
{
    mc::Subspace sub;
    sub.name = "purity L=" + std::to_string(L) + " shard " + std::to_string(shard) + "/" + std::to_string(nsh);
    sub.bound = "every sequence of length " + std::to_string(L) + " over {eval(x): 8 positions built to collide in the pawn cache} u {clear}, each on a fresh evaluator";
    // enumerate pawn structures (<= 4 pawns, fixed order) until the alphabet is found
    std::vector<Structure> structs;
    Structure A0;
    bool haveA0 = false;
    Structure A1, A2;
    bool havePair = false;
    // two structures whose pawn keys agree in the low 32 bits (a cache that verifies only part of the
    // key confuses them); found by a birthday search over the same enumeration
    Structure A3, A4;
    bool haveLow32 = false;
    std::unordered_map<uint32_t, Structure> low32;
    std::map<uint64_t, size_t> slot2idx;
    std::vector<int> sqs;
    for (int s = 8; s < 56; ++s) sqs.push_back(s);
    uint64_t tried = 0;
    auto usable = [&](const Structure& st) {
        for (int ps = 0; ps < 3; ++ps)
            for (int stm = 0; stm < 2; ++stm)
                if (make_fen(st, ps, stm).empty()) return false;
        return true;
    };
    auto consider = [&](const Structure& st) {
        ++tried;
        if (!haveLow32 && low32.size() < 400000 && st.key != 0)
        {
            auto it = low32.find(uint32_t(st.key));
            if (it != low32.end() && it->second.key != st.key && usable(st) && usable(it->second))
            {
                A3 = it->second;
                A4 = st;
                haveLow32 = true;
                low32.clear();
            }
            else if (it == low32.end())
                low32.emplace(uint32_t(st.key), st);
        }
        uint64_t slot = st.key & (PAWN_SLOTS - 1);
        if (slot == 0 && st.key != 0 && !haveA0)
        {
            // non-zero pawn score required so that a leak is visible
            if (usable(st))
            {
                A0 = st;
                haveA0 = true;
            }
        }
        if (!havePair && slot != 0 && structs.size() < 200000)
        {
            auto it = slot2idx.find(slot);
            if (it != slot2idx.end() && structs[it->second].key != st.key && usable(st))
            {
                A1 = structs[it->second];
                A2 = st;
                havePair = true;
            }
            else if (it == slot2idx.end() && usable(st))
            {
                slot2idx[slot] = structs.size();
                structs.push_back(st);
            }
        }
    };
    const char cols[2] = {'P', 'p'};
    for (int n = 1; n <= 4 && !(haveA0 && havePair && (haveLow32 || low32.size() >= 400000)); ++n)
    {
        std::vector<int> idx(n);
        std::function<void(int, int)> rec = [&](int i, int lo) {
            if (haveA0 && havePair && (haveLow32 || low32.size() >= 400000)) return;
            if (i == n)
            {
                for (int mask = 0; mask < (1 << n) && !(haveA0 && havePair && (haveLow32 || low32.size() >= 400000)); ++mask)
                {
                    Structure st;
                    std::string pl(64, '.');
                    for (int k = 0; k < n; ++k) st.pawns.push_back({cols[(mask >> k) & 1], sqs[idx[k]]});
                    // pawn key through the public API
                    ref::Pos p;
                    std::memset(p.b, '.', 64);
                    for (auto& pw : st.pawns) p.b[pw.second] = pw.first;
                    p.b[0] = 'K';
                    p.b[63] = 'k';
                    p.stm = 0; p.cr = 0; p.ep = -1; p.hmc = 0; p.fmn = 1;
                    Position e(ref::fen(p));
                    st.key = e.pawn_hash();
                    consider(st);
                }
                return;
            }
            for (int s = lo; s < int(sqs.size()); ++s)
            {
                idx[i] = s;
                rec(i + 1, s + 1);
                if (haveA0 && havePair && (haveLow32 || low32.size() >= 400000)) return;
            }
        };
        rec(0, 0);
    }
    R.count("structures_searched", tried);
    if (!haveA0 || !havePair)
    {
        fprintf(stderr, "could not construct the colliding alphabet (A0 %d pair %d after %llu structures)\n", haveA0, havePair, (unsigned long long)tried);
        exit(2);
    }
    std::vector<std::string> alpha;
    auto add = [&](const std::string& f) {
        if (!f.empty()) alpha.push_back(f);
    };
    Structure none;
    none.key = 0;
    add(make_fen(A0, 0, 0));
    add(make_fen(A0, 1, 1));
    add(make_fen(A1, 0, 0));
    add(make_fen(A1, 2, 1));
    add(make_fen(A2, 0, 1));
    add(make_fen(A2, 1, 0));
    add(make_fen(none, 0, 0));   // pawnless, key 0
    add(make_fen(none, 2, 1));
    if (haveLow32)
    {
        add(make_fen(A3, 0, 0));
        add(make_fen(A4, 0, 0));
        R.count("alphabets_with_low32_pair");
    }
    if (alpha.size() < 8)
    {
        fprintf(stderr, "alphabet incomplete (%zu)\n", alpha.size());
        exit(2);
    }
    // expected values: each on its own fresh evaluator
    std::vector<Value> expect;
    std::vector<Position> pos;
    for (auto& f : alpha)
    {
        PositionScorer fresh;
        Position e(f);
        if (endgame::score(e) != VALUE_NONE)
        {
            fprintf(stderr, "alphabet position hits a specialised endgame: %s\n", f.c_str());
            exit(2);
        }
        pos.push_back(e);
        expect.push_back(fresh.score(e));
    }
    for (size_t i = 0; i < alpha.size(); ++i) R.sample(mc::JObj().s("alphabet_" + std::to_string(i), alpha[i]).n("fresh_score", expect[i]).u("pawn_key_slot", pos[i].pawn_hash() & (PAWN_SLOTS - 1)).str());
    int A = int(alpha.size()) + 1;  // + clear
    uint64_t total = 1;
    for (int i = 0; i < L; ++i) total *= A;
    for (uint64_t code = 0; code < total; ++code)
    {
        if (int(code % nsh) != shard) continue;
        if ((code & 0xFF) == 0 && R.out_of_time())
        {
            R.subspaces.push_back(sub);
            return;
        }
        // skip sequences ending in clear (nothing observed last) — still executed as prefixes of others
        PositionScorer sc;
        uint64_t c = code;
        std::string desc;
        bool cleared = false;
        for (int i = 0; i < L; ++i)
        {
            int op = int(c % A);
            c /= A;
            if (op == A - 1)
            {
                sc.clear();
                desc += "C";
                cleared = true;
            }
            else
            {
                Value v = sc.score(pos[op]);
                desc += char('0' + op);
                sub.transitions++;
                if (v != expect[op])
                {
                    bool pawnless = pos[op].pawn_hash() == 0;
                    std::string cls = std::string("C14:impure:") + (cleared ? "after_clear" : "no_clear") + (pawnless ? ":pawnless_position" : ":position_with_pawns");
                    std::vector<std::string> seq;
                    for (int j = 0; j <= i; ++j) seq.push_back(desc[j] == 'C' ? std::string("clear") : "eval " + alpha[desc[j] - '0']);
                    R.violation(cls, mc::JObj().s("ops", desc).raw("sequence", mc::jlist(seq, true)).n("score", v).n("fresh_score", expect[op]));
                    break;
                }
                if (!bound_ok(v)) R.violation("C14:out_of_range", mc::JObj().s("fen", alpha[op]).n("score", v));
            }
        }
        sub.states++;
        R.outcome(desc.substr(0, 2));
    }
    if (haveLow32)
    {
        // the pair with equal low key halves, both orders, on one evaluator each
        for (int order = 0; order < 2; ++order)
        {
            PositionScorer sc;
            size_t a = alpha.size() - 2 + size_t(order), b = alpha.size() - 1 - size_t(order);
            sc.score(pos[a]);
            Value v = sc.score(pos[b]);
            sub.transitions += 2;
            if (v != expect[b])
                R.violation("C14:impure:no_clear:structures_with_equal_low_key_half",
                            mc::JObj().s("first", alpha[a]).s("second", alpha[b]).n("score", v).n("fresh_score", expect[b]));
        }
    }
    sub.exhaustive = true;
    R.subspaces.push_back(sub);
}

// C14: purity across the material dispatch. The colliding-pawn alphabet above deliberately avoids the specialised
// endgames; this one is made of them: one position per material class the evaluator dispatches on (bare kings,
// insufficient material, every specialised endgame, general evaluation), both colours for the asymmetric ones.
// Every sequence of length L over {eval(x)} u {clear} on one evaluator, each result compared with a fresh evaluator.
static void run_matpurity(int L, int shard, int nsh)
{
    mc::Subspace sub;
    sub.name = "material purity L=" + std::to_string(L) + " shard " + std::to_string(shard) + "/" + std::to_string(nsh);
    sub.bound = "every sequence of length " + std::to_string(L) + " over {eval(x): one position per material class of the evaluator's dispatch} u {clear}";
    static const char* FENS[] = {
        "8/8/4k3/8/8/4K3/8/8 w - - 0 1",          // bare kings (material signature 0)
        "8/8/4k3/8/8/4K3/8/8 b - - 0 1",
        "8/8/4k3/8/8/4KB2/8/8 w - - 0 1",         // single minor
        "8/8/3nk3/8/8/4K3/8/8 w - - 0 1",
        "8/8/4k3/8/8/4KQ2/8/8 w - - 0 1",         // KXK
        "8/8/3rk3/8/8/4K3/8/8 b - - 0 1",
        "8/8/4k3/8/4P3/4K3/8/8 w - - 0 1",        // KPK
        "8/8/4k3/4p3/8/4K3/8/8 b - - 0 1",
        "8/8/4k3/8/8/3NKB2/8/8 w - - 0 1",        // KNBK
        "8/8/4k3/8/8/3NKN2/8/8 w - - 0 1",        // KNNK
        "8/8/4k3/4p3/8/3NKN2/8/8 w - - 0 1",      // KNNKP
        "8/8/3rk3/8/8/4KQ2/8/8 w - - 0 1",        // KQKR
        "8/8/4k3/4p3/8/4KQ2/8/8 w - - 0 1",       // KQKP
        "8/8/4k3/4p3/8/4KR2/8/8 w - - 0 1",       // KRKP
        "8/8/3bk3/8/8/4KR2/8/8 w - - 0 1",        // KRKB
        "8/8/3nk3/8/8/4KR2/8/8 w - - 0 1",        // KRKN
        "8/8/3rk3/8/8/3NKR2/8/8 w - - 0 1",       // KRNKR
        "8/8/3rk3/8/8/3BKR2/8/8 w - - 0 1",       // KRBKR
        "8/8/4k3/8/P7/P3KB2/8/8 w - - 0 1",       // KBPsK
        "8/8/3bk3/8/P7/4KB2/8/8 w - - 0 1",       // KBPsKB
        "8/8/3rk3/3p4/8/4KQ2/8/8 w - - 0 1",      // KQKRPs
        "8/8/4k3/8/4P3/3PK3/8/8 w - - 0 1",       // KPsK
        "8/8/3nk3/8/8/3NKB2/8/8 w - - 0 1",       // KmmKm
        "r3k2r/pppq1ppp/2n2n2/4p3/4P3/2N2N2/PPPQ1PPP/R3K2R w KQkq - 0 1",   // general evaluation
    };
    std::vector<std::string> alpha;
    std::vector<Position> pos;
    std::vector<Value> expect;
    for (const char* f : FENS)
    {
        PositionScorer fresh;
        Position e{std::string(f)};
        alpha.push_back(f);
        pos.push_back(e);
        expect.push_back(fresh.score(e));
        if (endgame::score(e) != VALUE_NONE) R.count("material_alphabet_specialised_endgames");
    }
    int A = int(alpha.size()) + 1;
    uint64_t total = 1;
    for (int i = 0; i < L; ++i) total *= A;
    std::vector<int> ops(L);
    for (uint64_t code = 0; code < total; ++code)
    {
        if (int(code % nsh) != shard) continue;
        if ((code & 0xFF) == 0 && R.out_of_time())
        {
            R.subspaces.push_back(sub);
            return;
        }
        PositionScorer sc;
        uint64_t c = code;
        bool cleared = false;
        for (int i = 0; i < L; ++i)
        {
            int op = ops[i] = int(c % A);
            c /= A;
            if (op == A - 1)
            {
                sc.clear();
                cleared = true;
                continue;
            }
            Value v = sc.score(pos[op]);
            sub.transitions++;
            R.count("material_sequence_evaluations");
            if (v != expect[op])
            {
                std::vector<std::string> seq;
                for (int j = 0; j <= i; ++j) seq.push_back(ops[j] == A - 1 ? std::string("clear") : "eval " + alpha[ops[j]]);
                R.violation(std::string("C14:impure:material_dispatch:") + (cleared ? "after_clear:" : "no_clear:") + [&] { ref::Pos rp; ref::parse_fen(alpha[op], rp); return sigclass(rp); }(),
                            mc::JObj().raw("sequence", mc::jlist(seq, true)).n("score", v).n("fresh_score", expect[op]));
                break;
            }
            if (!bound_ok(v)) R.violation("C14:out_of_range", mc::JObj().s("fen", alpha[op]).n("score", v));
        }
        sub.states++;
        R.outcome("m" + std::to_string(ops[0]));
    }
    sub.exhaustive = true;
    R.subspaces.push_back(sub);
}

int main(int argc, char** argv)
{
    std::vector<std::string> spacesv;
    std::string out;
    for (int i = 1; i < argc; ++i)
    {
        std::string a = argv[i];
        if (a == "--prop") PROP = argv[++i];
        else if (a == "--space") spacesv.push_back(argv[++i]);
        else if (a == "--out") out = argv[++i];
        else if (a == "--deadline") R.deadline_s = atof(argv[++i]);
        else if (a == "--tier") ++i;
    }
    move_bitboards::init();
    zobrist::init();
    bitbase::init();
    endgame::init();
    PositionScorer scorer;
    g_scorer = &scorer;
    for (auto& s : spacesv)
    {
        auto parts = split(s, '|');
        if (parts[0] == "sig") run_sig(parts[1]);
        else if (parts[0] == "bfs") run_bfs(parts[1], atoi(parts[2].c_str()));
        else if (parts[0] == "seq") run_seq(parts[1]);
        else if (parts[0] == "pawngroup") run_pawngroup(parts[1]);
        else if (parts[0] == "pawnpure") run_pawnpure(parts[1]);
        else if (parts[0] == "matpurity")
        {
            int sh = atoi(parts[2].c_str());
            int n = atoi(parts[2].substr(parts[2].find('/') + 1).c_str());
            run_matpurity(atoi(parts[1].c_str()), sh, n);
        }
        else if (parts[0] == "purity")
        {
            int sh = atoi(parts[2].c_str());
            int n = atoi(parts[2].substr(parts[2].find('/') + 1).c_str());
            run_purity(atoi(parts[1].c_str()), sh, n);
        }
        else return 2;
    }
    return R.write(out) ? 0 : 2;
}
