// posmc — explicit-state explorer over chess positions, driving the real engine code and
// comparing every state / transition with the reference model refchess.
//
//   posmc --prop C01 --space <spec> [--space <spec> ...] --out result.json [--deadline s]
//
// space specs:
//   bfs|<fen>|<depth>          breadth-first over canonical states (dedup by identity)
//   tree|<fen>|<depth>         depth-first tree walk with real make/unmake on ONE engine object
//   sig|<signature spec>       all retro-legal placements of a material signature (spaces.h)
//   games|<fen>|<depth>        all games (move sequences) to depth, history predicates (C07)
//   lattice|<fen>              clock lattice x all legal moves (C02/C16)
//   encoding                   all move / moveinfo encodings (C16)
//   selftest                   refchess perft self-validation
#include "mc_common.h"
#include "refchess.h"
#include "spaces.h"

#include "endgame.h"
#include "movegen.h"
#include "polyglot.h"
#include "position.h"
#include "score.h"
#include "zobrist_hash.h"

#include <unordered_map>
#include <unordered_set>

using namespace engine;

static mc::Result R;
static std::string PROP;
static PositionScorer* g_scorer = nullptr;

// ---------------------------------------------------------------------------------------------
static Move to_engine(const ref::Mv& m)
{
    if (m.flags & ref::F_CASTLE_K) return create_castling(KING_CASTLING);
    if (m.flags & ref::F_CASTLE_Q) return create_castling(QUEEN_CASTLING);
    if (m.promo)
    {
        PieceKind k = m.promo == 'q' ? QUEEN : m.promo == 'r' ? ROOK : m.promo == 'b' ? BISHOP : KNIGHT;
        return create_promotion(Square(m.from), Square(m.to), k);
    }
    return create_move(Square(m.from), Square(m.to));
}

static std::string move_kind(const ref::Pos& p, const ref::Mv& m)
{
    if (m.flags & (ref::F_CASTLE_K | ref::F_CASTLE_Q)) return "castle";
    if (m.flags & ref::F_EP) return "ep";
    if (m.promo) return (m.flags & ref::F_CAPTURE) ? "promotion_capture" : "promotion";
    char k = ref::lower(p.b[m.from]);
    std::string s = k == 'p' ? ((m.flags & ref::F_DOUBLE) ? "double_push" : "pawn") : std::string(1, k);
    if (m.flags & ref::F_CAPTURE) s += "_capture";
    return s;
}

static std::vector<std::string> engine_moves_uci(const Position& e, std::vector<Move>* raw = nullptr)
{
    Move buf[MAX_MOVES];
    Move* end = generate_moves(e, e.color(), buf);
    std::vector<std::string> v;
    for (Move* it = buf; it != end; ++it)
    {
        v.push_back(e.uci(*it));
        if (raw) raw->push_back(*it);
    }
    return v;
}

static bool g_in_tree = false;
static std::string g_tree_root;
static std::vector<std::string> g_tree_line;

static mc::JObj wit(const ref::Pos& p)
{
    mc::JObj o;
    o.s("fen", ref::fen(p));
    if (g_in_tree)
    {
        // reached by play on one engine object: the path is part of the witness
        std::string l;
        for (auto& m : g_tree_line) l += (l.empty() ? "" : " ") + m;
        o.s("tree_root", g_tree_root).s("tree_moves", l);
    }
    return o;
}

// is the pawn on `from` pinned to its own king along the line from->to (the capture diagonal)?
static bool pinned_on_line(const ref::Pos& p, int from, int to)
{
    int k = ref::king_sq(p, p.stm);
    int df = ref::fileof(to) - ref::fileof(from), dr = ref::rankof(to) - ref::rankof(from);
    // king must be on the line through from with direction (df,dr) (either sense)
    for (int sense : {1, -1})
    {
        int f = ref::fileof(from) + sense * df, r = ref::rankof(from) + sense * dr;
        bool found_king = false;
        while (f >= 0 && f < 8 && r >= 0 && r < 8)
        {
            char c = p.b[r * 8 + f];
            if (c != '.')
            {
                found_king = (r * 8 + f) == k;
                break;
            }
            f += sense * df;
            r += sense * dr;
        }
        if (!found_king) continue;
        // look the other way for an enemy bishop/queen
        f = ref::fileof(from) - sense * df;
        r = ref::rankof(from) - sense * dr;
        while (f >= 0 && f < 8 && r >= 0 && r < 8)
        {
            char c = p.b[r * 8 + f];
            if (c != '.')
            {
                char l = ref::lower(c);
                return ref::color_of(c) != p.stm && (l == 'b' || l == 'q');
            }
            f -= sense * df;
            r -= sense * dr;
        }
    }
    return false;
}

// ---------------------------------------------------------------------------------------------
// C01
static void c01_state(const Position& e, const ref::Pos& p, const std::vector<ref::Mv>& legal)
{
    // fast path: compare encoded moves
    Move buf[MAX_MOVES];
    Move* end = generate_moves(e, e.color(), buf);
    std::vector<Move> ev(buf, end), rv;
    for (auto& m : legal) rv.push_back(to_engine(m));
    std::sort(ev.begin(), ev.end());
    std::sort(rv.begin(), rv.end());
    R.outcome("n" + std::to_string(rv.size()));
    if (ev == rv) return;
    std::vector<std::string> em = engine_moves_uci(e), rm;
    std::map<std::string, const ref::Mv*> byname;
    for (auto& m : legal)
    {
        rm.push_back(ref::uci(m));
        byname[rm.back()] = &m;
    }
    std::sort(em.begin(), em.end());
    std::sort(rm.begin(), rm.end());
    // duplicates
    for (size_t i = 1; i < em.size(); ++i)
        if (em[i] == em[i - 1])
        {
            R.violation("C01:duplicate", wit(p).s("move", em[i]));
            break;
        }
    std::vector<std::string> missing, extra;
    std::set_difference(rm.begin(), rm.end(), em.begin(), em.end(), std::back_inserter(missing));
    std::set_difference(em.begin(), em.end(), rm.begin(), rm.end(), std::back_inserter(extra));
    for (auto& s : missing)
    {
        const ref::Mv& m = *byname[s];
        std::string cls = "C01:missing:" + move_kind(p, m);
        if (m.flags & ref::F_EP) cls += pinned_on_line(p, m.from, m.to) ? ":capturer_pinned_on_capture_diagonal" : ":other";
        R.violation(cls, wit(p).s("move", s).n("engine_move_count", (long long)em.size()));
    }
    for (auto& s : extra) R.violation("C01:extra", wit(p).s("move", s));
    if (missing.empty() && extra.empty() && em.size() == rm.size())
        R.violation("C01:encoding_differs", wit(p));  // same text, different packed moves
}

// ---------------------------------------------------------------------------------------------
// C02
static int first_diff_field(const std::string& a, const std::string& b)
{
    std::istringstream x(a), y(b);
    std::string s, t;
    for (int i = 0; i < 6; ++i)
    {
        x >> s;
        y >> t;
        if (s != t) return i;
    }
    return -1;
}
static const char* FEN_FIELD[] = {"placement", "side", "rights", "ep", "halfmove", "fullmove"};

static void c02_state(Position& e, const ref::Pos& p, const std::vector<ref::Mv>& legal)
{
    ref::Pos t;
    for (auto& m : legal)
    {
        ref::make(p, m, t);
        Position e2 = e;
        Move em = e.parse_uci(ref::uci(m));
        e2.do_move(em);
        std::string got = e2.fen(), want = ref::fen(t);
        R.count("edges");
        if (got != want)
        {
            int f = first_diff_field(got, want);
            R.violation("C02:" + move_kind(p, m) + ":" + (f >= 0 ? FEN_FIELD[f] : "?"),
                        wit(p).s("move", ref::uci(m)).s("engine_fen", got).s("rules_fen", want));
        }
        else
            R.outcome(move_kind(p, m));
    }
}

// ---------------------------------------------------------------------------------------------
// C03 snapshot of every public observable
static std::string snapshot(Position& e)
{
    std::string s = e.fen();
    auto put = [&](uint64_t v) { s.append(reinterpret_cast<const char*>(&v), 8); };
    put(e.hash());
    put(e.pawn_hash());
    for (Square q = SQ_A1; q <= SQ_H8; ++q) s += char('A' + e.piece_at(q));
    for (Piece pc = W_PAWN; pc <= B_KING; ++pc)
    {
        int n = e.number_of_pieces(pc);
        s += char('0' + n);
        std::vector<int> sq;
        for (int i = 0; i < n && i < 10; ++i) sq.push_back(e.piece_position(pc, i));
        std::sort(sq.begin(), sq.end());
        for (int q : sq) s += char(33 + q);
        put(e.pieces(pc));
    }
    put(e.pieces());
    put(e.pieces(WHITE));
    put(e.pieces(BLACK));
    put(e.castling_rights());
    put(e.enpassant_square());
    put(e.half_moves());
    put(e.ply_count());
    put(e.get_pcv());
    s += e.is_repeated() ? 'r' : '-';
    s += e.threefold_repetition() ? 't' : '-';
    s += e.is_draw() ? 'd' : '-';
    s += e.rule50() ? 'f' : '-';
    s += e.enough_material() ? 'm' : '-';
    s += e.is_in_check(e.color()) ? 'c' : '-';
    put(uint64_t(g_scorer->score(e)));
    std::vector<std::string> mv = engine_moves_uci(e);
    std::sort(mv.begin(), mv.end());
    for (auto& m : mv) s += m;
    return s;
}

static void c03_state(Position& e, const ref::Pos& p, const std::vector<ref::Mv>& legal)
{
    std::string before = snapshot(e);
    for (auto& m : legal)
    {
        Move em = to_engine(m);
        MoveInfo mi = e.do_move(em);
        e.undo_move(em, mi);
        R.count("edges");
        std::string after = snapshot(e);
        if (after != before)
        {
            R.violation("C03:" + move_kind(p, m), wit(p).s("move", ref::uci(m)).s("fen_after_unmake", e.fen()));
            e = Position(ref::fen(p));
            before = snapshot(e);
        }
        else
            R.outcome(move_kind(p, m));
    }
    if (!ref::in_check(p, p.stm))
    {
        MoveInfo mi = e.do_null_move();
        e.undo_null_move(mi);
        R.count("null_edges");
        if (snapshot(e) != before)
        {
            R.violation("C03:null", wit(p).s("fen_after_unmake", e.fen()));
            e = Position(ref::fen(p));
        }
        else
            R.outcome("null");
    }
}

// nested walk: snapshot compared at every unwind
static uint64_t g_tree_nodes = 0;
static void c03_tree(Position& e, const ref::Pos& p, int depth, bool last_null)
{
    ++g_tree_nodes;
    if (depth == 0 || R.out_of_time()) return;
    std::vector<ref::Mv> legal;
    ref::gen_legal(p, legal);
    std::string before = snapshot(e);
    ref::Pos t;
    for (auto& m : legal)
    {
        ref::make(p, m, t);
        Move em = to_engine(m);
        MoveInfo mi = e.do_move(em);
        g_tree_line.push_back(ref::uci(m));
        c03_tree(e, t, depth - 1, false);
        g_tree_line.pop_back();
        e.undo_move(em, mi);
        R.count("edges");
        if (snapshot(e) != before)
        {
            R.violation("C03:nested:" + move_kind(p, m),
                        wit(p).s("move", ref::uci(m)).n("remaining_depth", depth).s("fen_after_unmake", e.fen()));
            return;  // object state unknown; give up this subtree
        }
    }
    if (!last_null && !legal.empty() && !ref::in_check(p, p.stm))
    {
        t = p;
        t.stm = 1 - p.stm;
        t.ep = -1;
        t.hmc = p.hmc + 1;
        MoveInfo mi = e.do_null_move();
        c03_tree(e, t, depth - 1, true);
        e.undo_null_move(mi);
        R.count("null_edges");
        if (snapshot(e) != before)
            R.violation("C03:nested:null", wit(p).n("remaining_depth", depth).s("fen_after_unmake", e.fen()));
    }
}

// ---------------------------------------------------------------------------------------------
// C04
static std::unordered_map<std::string, uint64_t> g_id2key;      // identity -> key
static std::unordered_map<uint64_t, std::string> g_key2id;      // key -> identity
static std::unordered_map<std::string, uint64_t> g_pawns2key;   // pawn placement -> pawn key
static std::vector<std::pair<std::string, std::string>> g_collisions;
static bool g_c04_maps = true;

static std::string pawn_placement(const ref::Pos& p)
{
    std::string s;
    for (int q = 0; q < 64; ++q)
        if (p.b[q] == 'P' || p.b[q] == 'p')
        {
            s += p.b[q];
            s += char(33 + q);
        }
    return s;
}

static void c04_record(const ref::Pos& p, uint64_t key, uint64_t pkey, const std::string& how)
{
    if (!g_c04_maps) return;
    std::string id = ref::identity(p);
    auto it = g_id2key.find(id);
    if (it == g_id2key.end())
        g_id2key.emplace(id, key);
    else if (it->second != key)
        R.violation("C04:same_position_two_keys:" + how, wit(p).u("key_a", it->second).u("key_b", key));
    else
        R.count("transposition_arrivals");
    auto jt = g_key2id.find(key);
    if (jt == g_key2id.end())
        g_key2id.emplace(key, id);
    else if (jt->second != id)
        g_collisions.push_back({jt->second, id});
    std::string pp = pawn_placement(p);
    auto kt = g_pawns2key.find(pp);
    if (kt == g_pawns2key.end())
        g_pawns2key.emplace(pp, pkey);
    else if (kt->second != pkey)
        R.violation("C04:pawn_key_not_function_of_pawns:" + how, wit(p).u("key_a", kt->second).u("key_b", pkey));
}

static void c04_state(Position& e, const ref::Pos& p, const std::vector<ref::Mv>& legal)
{
    c04_record(p, e.hash(), e.pawn_hash(), "fen");
    ref::Pos t;
    for (auto& m : legal)
    {
        ref::make(p, m, t);
        Move em = to_engine(m);
        Position e2 = e;
        MoveInfo mi = e2.do_move(em);
        R.count("edges");
        Position fresh(e2.fen());
        if (e2.hash() != fresh.hash())
            R.violation("C04:incremental_ne_scratch:" + move_kind(p, m), wit(p).s("move", ref::uci(m)));
        else if (e2.pawn_hash() != fresh.pawn_hash())
            R.violation("C04:pawn_incremental_ne_scratch:" + move_kind(p, m), wit(p).s("move", ref::uci(m)));
        else
            R.outcome(move_kind(p, m));
        c04_record(t, e2.hash(), e2.pawn_hash(), "move");
        e2.undo_move(em, mi);
        if (e2.hash() != e.hash() || e2.pawn_hash() != e.pawn_hash())
            R.violation("C04:key_after_unmake:" + move_kind(p, m), wit(p).s("move", ref::uci(m)));
    }
    if (!ref::in_check(p, p.stm))
    {
        Position e2 = e;
        MoveInfo mi = e2.do_null_move();
        Position fresh(e2.fen());
        R.count("null_edges");
        if (e2.hash() != fresh.hash() || e2.pawn_hash() != fresh.pawn_hash())
            R.violation("C04:incremental_ne_scratch:null", wit(p));
        e2.undo_null_move(mi);
        if (e2.hash() != e.hash()) R.violation("C04:key_after_unmake:null", wit(p));
    }
}

// neighbours differing in exactly one identity component must have different keys
static void c04_variants(const ref::Pos& p)
{
    // called once per placement group by the sig enumerator: p has stm=white, cr=max, ep=-1
    std::vector<std::pair<std::string, uint64_t>> keys;
    int maxcr = p.cr;
    ref::Pos q = p;
    for (int stm = 0; stm < 2; ++stm)
        for (int cr = 0; cr < 16; ++cr)
        {
            if (cr & ~maxcr) continue;
            q.stm = stm;
            q.cr = cr;
            for (int epf = -1; epf < 8; ++epf)
            {
                q.ep = -1;
                if (epf >= 0)
                {
                    int mover = 1 - stm;
                    int ps = (mover == ref::WHITE ? 3 : 4) * 8 + epf;
                    if (p.b[ps] != ref::mk(mover, 'p')) continue;
                    q.ep = mover == ref::WHITE ? ps - 8 : ps + 8;
                }
                if (!ref::retro_ok(q)) continue;
                Position e(ref::fen(q));
                keys.push_back({ref::identity(q), e.hash()});
            }
        }
    R.count("variant_groups");
    R.count("variant_states", keys.size());
    for (size_t i = 0; i < keys.size(); ++i)
        for (size_t j = i + 1; j < keys.size(); ++j)
            if (keys[i].second == keys[j].second) g_collisions.push_back({keys[i].first, keys[j].first});
}

static void c04_finish()
{
    // a reported collision must persist under two re-randomisations of the tables
    std::set<std::pair<std::string, std::string>> uniq(g_collisions.begin(), g_collisions.end());
    R.count("key_collisions_first_pass", uniq.size());
    if (uniq.empty()) return;
    std::vector<std::pair<std::string, std::string>> still(uniq.begin(), uniq.end());
    for (int round = 0; round < 2 && !still.empty(); ++round)
    {
        zobrist::init();
        std::vector<std::pair<std::string, std::string>> nxt;
        for (auto& c : still)
        {
            Position a(c.first + " 0 1"), b(c.second + " 0 1");
            if (a.hash() == b.hash()) nxt.push_back(c);
        }
        still.swap(nxt);
    }
    for (auto& c : still)
        R.violation("C04:different_positions_same_key", mc::JObj().s("position_a", c.first).s("position_b", c.second));
}

// ---------------------------------------------------------------------------------------------
// C07 static predicates
static void c07_state(Position& e, const ref::Pos& p, const std::vector<ref::Mv>& legal)
{
    bool chk = ref::in_check(p, p.stm);
    bool mate = legal.empty() && chk, stale = legal.empty() && !chk;
    if (e.is_in_check(e.color()) != chk) R.violation("C07:is_in_check", wit(p).b("rules", chk));
    if (e.is_in_check(!e.color())) R.violation("C07:is_in_check:other_side", wit(p));
    if (e.is_checkmate() != mate) R.violation("C07:is_checkmate", wit(p).b("rules", mate));
    if (e.is_stalemate() != stale) R.violation("C07:is_stalemate", wit(p).b("rules", stale));
    if (e.enough_material() == ref::insufficient(p)) R.violation("C07:enough_material", wit(p).b("rules_insufficient", ref::insufficient(p)));
    if (e.rule50() != (p.hmc >= 100)) R.violation("C07:rule50:static", wit(p));
    R.outcome(std::string(chk ? "c" : "-") + (mate ? "m" : "-") + (stale ? "s" : "-") + (ref::insufficient(p) ? "i" : "-"));
}

// history predicates over every prefix of every game
static uint64_t g_games_nodes = 0, g_games_leaves = 0;
static std::string g_root_fen;
static uint64_t g_sq_filter = 0;  // if non-zero: only moves whose from and to squares are both in the set
static void c07_games(Position& e, const ref::Pos& p, std::vector<std::string>& hist, std::vector<std::string>& line, int depth)
{
    ++g_games_nodes;
    std::string id = ref::identity(p);
    int occ = 0;
    for (auto& h : hist)
        if (h == id) ++occ;
    bool before = occ >= 1, three = occ >= 2, r50 = p.hmc >= 100, insuff = ref::insufficient(p);
    bool draw = r50 || three || insuff;
    auto w = [&]() {
        mc::JObj o;
        std::string l;
        for (auto& s : line) l += (l.empty() ? "" : " ") + s;
        o.s("start_fen", g_root_fen).s("moves", l).s("fen_reached", ref::fen(p));
        return o;
    };
    std::string last_kind = line.empty() ? "start" : "after_move";
    if (e.is_repeated() != before) R.violation("C07:is_repeated", w().b("rules", before));
    if (e.threefold_repetition() != three) R.violation("C07:threefold_repetition", w().b("rules", three));
    if (e.rule50() != r50) R.violation("C07:rule50", w().b("rules", r50).n("rules_halfmove_clock", p.hmc).n("engine_halfmove_clock", e.half_moves()));
    if (e.enough_material() == insuff) R.violation("C07:enough_material", w().b("rules_insufficient", insuff));
    if (e.is_draw() != draw) R.violation("C07:is_draw", w().b("rules", draw));
    bool chk = ref::in_check(p, p.stm);
    if (e.is_in_check(e.color()) != chk) R.violation("C07:is_in_check", w().b("rules", chk));
    R.outcome(std::string(before ? "r" : "-") + (three ? "t" : "-") + (r50 ? "f" : "-") + (insuff ? "i" : "-") + (chk ? "c" : "-"));
    if (before) R.count("prefixes_repeated");
    if (three) R.count("prefixes_threefold");
    if (r50) R.count("prefixes_rule50");
    if (insuff) R.count("prefixes_insufficient");
    if (depth == 0 || R.out_of_time())
    {
        ++g_games_leaves;
        return;
    }
    std::vector<ref::Mv> legal;
    ref::gen_legal(p, legal);
    if (legal.empty())
    {
        bool mate = chk;
        if (e.is_checkmate() != mate) R.violation("C07:is_checkmate", w().b("rules", mate));
        if (e.is_stalemate() != !mate) R.violation("C07:is_stalemate", w().b("rules", !mate));
        ++g_games_leaves;
        return;
    }
    hist.push_back(id);
    ref::Pos t;
    for (auto& m : legal)
    {
        if (g_sq_filter && !(((g_sq_filter >> m.from) & 1) && ((g_sq_filter >> m.to) & 1))) continue;
        ref::make(p, m, t);
        Move em = e.parse_uci(ref::uci(m));
        MoveInfo mi = e.do_move(em);
        line.push_back(ref::uci(m));
        c07_games(e, t, hist, line, depth - 1);
        line.pop_back();
        e.undo_move(em, mi);
        R.count("edges");
    }
    hist.pop_back();
}

// ---------------------------------------------------------------------------------------------
// C15
static std::string checker_kind(const ref::Pos& after, int side_in_check)
{
    // which piece kinds attack the king (for the classifier)
    int k = ref::king_sq(after, side_in_check);
    std::string kinds;
    for (int s = 0; s < 64; ++s)
    {
        char c = after.b[s];
        if (c == '.' || ref::color_of(c) == side_in_check) continue;
        ref::Pos t = after;
        for (int u = 0; u < 64; ++u)
            if (u != s && t.b[u] != '.' && ref::color_of(t.b[u]) != side_in_check) t.b[u] = '#';
        if (ref::attacked(t, k, 1 - side_in_check)) kinds += ref::lower(c);
    }
    return kinds;
}

static void c15_state(Position& e, const ref::Pos& p, const std::vector<ref::Mv>& legal)
{
    ref::Pos t;
    for (auto& m : legal)
    {
        ref::make(p, m, t);
        Move em = to_engine(m);
        bool cap = m.flags & ref::F_CAPTURE, quiet = !cap && !m.promo, chk = ref::in_check(t, t.stm);
        R.count("edges");
        std::string kind = move_kind(p, m);
        if (e.move_is_capture(em) != cap)
            R.violation("C15:is_capture:" + kind, wit(p).s("move", ref::uci(m)).b("truth", cap));
        if (e.move_is_quiet(em) != quiet)
            R.violation("C15:is_quiet:" + kind, wit(p).s("move", ref::uci(m)).b("truth", quiet));
        bool ec = e.move_gives_check(em);
        if (ec != chk)
        {
            std::string who = chk ? checker_kind(t, t.stm) : "none";
            bool by_moved = false;
            if (chk)
            {
                // is the piece now on m.to (promoted piece / moved piece) a checker?
                ref::Pos u = t;
                for (int s = 0; s < 64; ++s)
                    if (s != m.to && u.b[s] != '.' && ref::color_of(u.b[s]) == p.stm) u.b[s] = '#';
                by_moved = ref::attacked(u, ref::king_sq(t, t.stm), p.stm);
            }
            R.violation("C15:gives_check:" + kind + ":engine=" + (ec ? "1" : "0") + ":truth=" + (chk ? "1" : "0") +
                            (chk ? (by_moved ? ":by_piece_on_target" : ":discovered_only") : ""),
                        wit(p).s("move", ref::uci(m)).s("checkers", who));
        }
        R.outcome(kind + (cap ? "x" : "") + (chk ? "+" : ""));
        if (chk) R.count("checking_edges");
    }
}

// ---------------------------------------------------------------------------------------------
// C16
static void c16_state(Position& e, const ref::Pos& p, const std::vector<ref::Mv>& legal, bool reached_by_play)
{
    // move text
    std::vector<Move> raw;
    engine_moves_uci(e, &raw);
    for (Move gm : raw)
    {
        std::string s = e.uci(gm);
        R.count("edges");
        if (e.parse_uci(s) != gm) R.violation("C16:uci_roundtrip", wit(p).s("text", s));
    }
    for (auto& m : legal)
    {
        std::string want = ref::uci(m), got = e.uci(to_engine(m));
        if (want != got) R.violation("C16:uci_text:" + move_kind(p, m), wit(p).s("engine", got).s("expected", want));
        if (e.parse_uci(want) != to_engine(m)) R.violation("C16:parse_uci:" + move_kind(p, m), wit(p).s("text", want));
        R.outcome(move_kind(p, m));
    }
    // FEN
    std::string f = e.fen();
    Position q(f);
    std::string how = reached_by_play ? "played" : "loaded";
    if (f != ref::fen(p)) R.violation("C16:fen_text:" + how, wit(p).s("engine_fen", f));
    if (q.fen() != f) R.violation("C16:fen_roundtrip:text:" + how, wit(p).s("second_fen", q.fen()));
    if (q.hash() != e.hash() || q.pawn_hash() != e.pawn_hash()) R.violation("C16:fen_roundtrip:keys:" + how, wit(p));
    if (!(q == e)) R.violation("C16:fen_roundtrip:equality:" + how, wit(p));
    if (q.castling_rights() != e.castling_rights() || q.enpassant_square() != e.enpassant_square() ||
        q.color() != e.color())
        R.violation("C16:fen_roundtrip:fields:" + how, wit(p));
    if (q.half_moves() != e.half_moves() || q.ply_count() != e.ply_count())
        R.violation("C16:fen_roundtrip:clocks:" + how, wit(p).n("ply_a", e.ply_count()).n("ply_b", q.ply_count()));
    for (Square s = SQ_A1; s <= SQ_H8; ++s)
        if (q.piece_at(s) != e.piece_at(s))
        {
            R.violation("C16:fen_roundtrip:board:" + how, wit(p));
            break;
        }
}

static void c16_tree(Position& e, const ref::Pos& p, int depth)
{
    ++g_tree_nodes;
    std::vector<ref::Mv> legal;
    ref::gen_legal(p, legal);
    c16_state(e, p, legal, true);
    if (depth == 0 || R.out_of_time()) return;
    ref::Pos t;
    for (auto& m : legal)
    {
        ref::make(p, m, t);
        Move em = to_engine(m);
        MoveInfo mi = e.do_move(em);
        g_tree_line.push_back(ref::uci(m));
        c16_tree(e, t, depth - 1);
        g_tree_line.pop_back();
        e.undo_move(em, mi);
    }
}

static void c16_encoding()
{
    mc::Subspace sub;
    sub.name = "encoding";
    sub.bound = "all (from,to,promotion in none/N/B/R/Q) + both castling codes; create_moveinfo over 7x16x65x2x256";
    for (int f = 0; f < 64; ++f)
        for (int t = 0; t < 64; ++t)
            for (PieceKind k : {NO_PIECE_KIND, KNIGHT, BISHOP, ROOK, QUEEN})
            {
                Move m = k == NO_PIECE_KIND ? create_move(Square(f), Square(t)) : create_promotion(Square(f), Square(t), k);
                sub.states++;
                if (from(m) != Square(f) || to(m) != Square(t) || promotion(m) != k || castling(m) != NO_CASTLING)
                    R.violation("C16:move_encoding", mc::JObj().n("from", f).n("to", t).n("promotion", k));
                if (k == NO_PIECE_KIND && create_promotion(Square(f), Square(t), NO_PIECE_KIND) != m)
                    R.violation("C16:move_encoding:promotion_none", mc::JObj().n("from", f).n("to", t));
            }
    for (Castling c : {KING_CASTLING, QUEEN_CASTLING})
    {
        Move m = create_castling(c);
        sub.states++;
        if (castling(m) != c || promotion(m) != NO_PIECE_KIND) R.violation("C16:castling_encoding", mc::JObj().n("castling", c));
    }
    if (create_castling(KING_CASTLING) == create_castling(QUEEN_CASTLING)) R.violation("C16:castling_encoding", mc::JObj().s("what", "codes equal"));
    for (int cap = 0; cap < 7; ++cap)
        for (int cr = 0; cr < 16; ++cr)
            for (int ep = 0; ep <= 64; ++ep)
                for (int isep = 0; isep < 2; ++isep)
                    for (int h = 0; h < 256; ++h)
                    {
                        MoveInfo mi = create_moveinfo(PieceKind(cap), Castling(cr), Square(ep), isep, uint8_t(h));
                        sub.transitions++;
                        if (captured_piece(mi) != PieceKind(cap) || last_castling(mi) != Castling(cr) ||
                            last_enpassant_square(mi) != Square(ep) || enpassant(mi) != bool(isep) ||
                            half_move_counter(mi) != uint8_t(h))
                            R.violation("C16:moveinfo_encoding", mc::JObj().n("captured", cap).n("rights", cr).n("ep", ep).n("is_ep", isep).n("halfmove", h));
                    }
    sub.exhaustive = true;
    R.outcome("encoding");
    R.subspaces.push_back(sub);
}

// ---------------------------------------------------------------------------------------------
// C17
static void c17_state(Position& e, const ref::Pos& p, const std::vector<ref::Mv>& legal)
{
    std::vector<Move> raw;
    engine_moves_uci(e, &raw);
    if (raw.size() > 128)
    {
        // san() is exercised for these by the sanitizer build in sessionmc; here the count is
        // recorded so that the evidence shows whether the >128 case was inside this run
        R.count("states_over_128_moves");
    }
    std::map<std::string, Move> seen;
    std::map<Move, const ref::Mv*> rm;
    for (auto& m : legal) rm[to_engine(m)] = &m;
    // vacuity counters from the oracle's side: moves that need a file/rank, or both, to be told apart
    for (auto& m : legal)
    {
        char k = ref::lower(p.b[m.from]);
        if (k == 'p' || k == 'k') continue;
        bool other = false, same_file = false, same_rank = false;
        for (auto& o : legal)
        {
            if (o.from == m.from || o.to != m.to || p.b[o.from] != p.b[m.from]) continue;
            other = true;
            if (ref::fileof(o.from) == ref::fileof(m.from)) same_file = true;
            if (ref::rankof(o.from) == ref::rankof(m.from)) same_rank = true;
        }
        if (other) R.count("disambiguated");
        if (same_file && same_rank) R.count("doubly_disambiguated");
    }
    for (Move gm : raw)
    {
        R.count("edges");
        std::string s = e.san(gm);
        std::string kind = rm.count(gm) ? move_kind(p, *rm[gm]) : "unknown";
        Move back = e.parse_san(s);
        if (back != gm)
        {
            bool castling_legal = false;
            for (auto& m : legal)
                if (m.flags & (ref::F_CASTLE_K | ref::F_CASTLE_Q)) castling_legal = true;
            std::string cls = "C17:roundtrip:" + kind + (back == NO_MOVE ? ":rejected" : ":other_move");
            if (s.size() && (s.back() == '+' || s.back() == '#')) cls += ":with_suffix";
            if (castling_legal && !(castling(gm) != NO_CASTLING)) cls += ":castling_also_legal";
            R.violation(cls, wit(p).s("move", e.uci(gm)).s("san", s).s("parsed_back", back == NO_MOVE ? "none" : e.uci(back)));
        }
        else
            R.outcome(kind + (s.find('x') != std::string::npos ? "x" : "") + (s.back() == '+' ? "+" : s.back() == '#' ? "#" : ""));
        if (seen.count(s) && seen[s] != gm)
            R.violation("C17:ambiguous", wit(p).s("san", s).s("move_a", e.uci(seen[s])).s("move_b", e.uci(gm)));
        seen[s] = gm;
    }
}

// ---------------------------------------------------------------------------------------------
// C18 — reference Polyglot key over a flat Random64[781] in the published layout
static uint64_t RANDOM64[781];
static bool load_random64(const std::string& path)
{
    FILE* f = fopen(path.c_str(), "r");
    if (!f) return false;
    int n = 0;
    unsigned long long v;
    while (n < 781 && fscanf(f, "%llx", &v) == 1) RANDOM64[n++] = v;
    fclose(f);
    return n == 781;
}
static uint64_t polyglot_ref(const ref::Pos& p)
{
    uint64_t k = 0;
    static const char* KINDS = "pPnNbBrRqQkK";  // bp=0 wp=1 bn=2 wn=3 ...
    for (int s = 0; s < 64; ++s)
    {
        char c = p.b[s];
        if (c == '.') continue;
        int kind = int(strchr(KINDS, c) - KINDS);
        k ^= RANDOM64[64 * kind + 8 * ref::rankof(s) + ref::fileof(s)];
    }
    if (p.cr & ref::CR_WK) k ^= RANDOM64[768 + 0];
    if (p.cr & ref::CR_WQ) k ^= RANDOM64[768 + 1];
    if (p.cr & ref::CR_BK) k ^= RANDOM64[768 + 2];
    if (p.cr & ref::CR_BQ) k ^= RANDOM64[768 + 3];
    if (p.ep >= 0)
    {
        // only if a pawn of the side to move stands next to the just-advanced pawn
        int pawn_sq = p.stm == ref::WHITE ? p.ep - 8 : p.ep + 8;
        char mine = ref::mk(p.stm, 'p');
        int f = ref::fileof(pawn_sq);
        bool adj = (f > 0 && p.b[pawn_sq - 1] == mine) || (f < 7 && p.b[pawn_sq + 1] == mine);
        if (adj) k ^= RANDOM64[772 + ref::fileof(p.ep)];
    }
    if (p.stm == ref::WHITE) k ^= RANDOM64[780];
    return k;
}
// the nine key vectors printed in the Polyglot book format description (independent of the engine)
static void c18_vectors()
{
    static const struct
    {
        const char* fen;
        uint64_t key;
    } V[] = {
        {"rnbqkbnr/pppppppp/8/8/8/8/PPPPPPPP/RNBQKBNR w KQkq - 0 1", 0x463b96181691fc9cULL},
        {"rnbqkbnr/pppppppp/8/8/4P3/8/PPPP1PPP/RNBQKBNR b KQkq e3 0 1", 0x823c9b50fd114196ULL},
        {"rnbqkbnr/ppp1pppp/8/3p4/4P3/8/PPPP1PPP/RNBQKBNR w KQkq d6 0 2", 0x0756b94461c50fb0ULL},
        {"rnbqkbnr/ppp1pppp/8/3pP3/8/8/PPPP1PPP/RNBQKBNR b KQkq - 0 2", 0x662fafb965db29d4ULL},
        {"rnbqkbnr/ppp1p1pp/8/3pPp2/8/8/PPPP1PPP/RNBQKBNR w KQkq f6 0 3", 0x22a48b5a8e47ff78ULL},
        {"rnbqkbnr/ppp1p1pp/8/3pPp2/8/8/PPPPKPPP/RNBQ1BNR b kq - 0 3", 0x652a607ca3f242c1ULL},
        {"rnbq1bnr/ppp1pkpp/8/3pPp2/8/8/PPPPKPPP/RNBQ1BNR w - - 0 4", 0x00fdd303c946bdd9ULL},
        {"rnbqkbnr/p1pppppp/8/8/PpP4P/8/1P1PPPP1/RNBQKBNR b KQkq c3 0 3", 0x3c8123ea7b067637ULL},
        {"rnbqkbnr/p1pppppp/8/8/P6P/R1p5/1P1PPPP1/1NBQKBNR b Kkq - 0 4", 0x5c3f9b829b279560ULL},
    };
    mc::Subspace sub;
    sub.name = "published key vectors";
    sub.bound = "the nine example keys of the Polyglot format description: golden table and engine must both reproduce them";
    for (auto& v : V)
    {
        ref::Pos p;
        ref::parse_fen(v.fen, p);
        if (polyglot_ref(p) != v.key)
        {
            fprintf(stderr, "golden Random64 table does not reproduce the published key of %s\n", v.fen);
            exit(2);
        }
        Position e{std::string(v.fen)};
        if (PolyglotBook::hash(e) != v.key) R.violation("C18:published_vector", wit(p).u("engine", PolyglotBook::hash(e)).u("spec", v.key));
        sub.states++;
    }
    // all 781 constants non-zero and pairwise distinct
    std::set<uint64_t> d(RANDOM64, RANDOM64 + 781);
    if (d.size() != 781 || d.count(0))
    {
        fprintf(stderr, "golden table has duplicate or zero constants\n");
        exit(2);
    }
    sub.exhaustive = true;
    R.subspaces.push_back(sub);
}

static void c18_state(Position& e, const ref::Pos& p)
{
    uint64_t got = PolyglotBook::hash(e), want = polyglot_ref(p);
    if (got != want)
    {
        std::string cls = "C18:key";
        if (p.ep >= 0) cls += ":with_ep_square";
        R.violation(cls, wit(p).u("engine", got).u("spec", want));
    }
    int pawn_adj = 0;
    if (p.ep >= 0)
    {
        int pawn_sq = p.stm == ref::WHITE ? p.ep - 8 : p.ep + 8;
        char mine = ref::mk(p.stm, 'p');
        int f = ref::fileof(pawn_sq);
        pawn_adj = ((f > 0 && p.b[pawn_sq - 1] == mine) ? 1 : 0) + ((f < 7 && p.b[pawn_sq + 1] == mine) ? 2 : 0);
        R.count(pawn_adj ? "ep_with_capturer" : "ep_without_capturer");
    }
    R.outcome("cr" + std::to_string(p.cr) + "ep" + (p.ep < 0 ? "-" : std::to_string(pawn_adj)) + (p.stm ? "b" : "w"));
}

// ---------------------------------------------------------------------------------------------
static void coverage_counters(const ref::Pos& p, const std::vector<ref::Mv>& legal)
{
    for (auto& m : legal)
    {
        if (m.flags & ref::F_EP) R.count("cov_ep_moves");
        if (m.flags & (ref::F_CASTLE_K | ref::F_CASTLE_Q)) R.count("cov_castle_moves");
        if (m.promo) R.count("cov_promotion_moves");
    }
    if (ref::in_check(p, p.stm))
    {
        R.count("cov_in_check");
        if (ref::count_checkers(p, p.stm) >= 2) R.count("cov_double_check");
    }
    if (p.ep >= 0) R.count("cov_states_with_ep_square");
    if (p.cr) R.count("cov_states_with_rights");
}

static uint64_t g_clock_rr = 0;
static const int HMC_LATTICE[] = {0, 1, 49, 50, 98, 99, 100, 149};
static const int FMN_LATTICE[] = {1, 2, 99};

// one state, loaded by FEN
static void visit_state(ref::Pos p, bool vary_clocks)
{
    if (vary_clocks && (PROP == "C02" || PROP == "C16" || PROP == "C03" || PROP == "C07"))
    {
        // clocks do not take part in the identity; each state gets one lattice point, round-robin
        p.hmc = HMC_LATTICE[g_clock_rr % 8];
        p.fmn = FMN_LATTICE[(g_clock_rr / 8) % 3];
        ++g_clock_rr;
    }
    std::vector<ref::Mv> legal;
    ref::gen_legal(p, legal);
    Position e(ref::fen(p));
    coverage_counters(p, legal);
    if (PROP == "C01")
        c01_state(e, p, legal);
    else if (PROP == "C02")
        c02_state(e, p, legal);
    else if (PROP == "C03")
        c03_state(e, p, legal);
    else if (PROP == "C04")
        c04_state(e, p, legal);
    else if (PROP == "C07")
        c07_state(e, p, legal);
    else if (PROP == "C15")
        c15_state(e, p, legal);
    else if (PROP == "C16")
        c16_state(e, p, legal, false);
    else if (PROP == "C17")
        c17_state(e, p, legal);
    else if (PROP == "C18")
        c18_state(e, p);
}

static std::vector<std::string> split(const std::string& s, char d)
{
    std::vector<std::string> v;
    size_t a = 0;
    while (true)
    {
        size_t b = s.find(d, a);
        v.push_back(s.substr(a, b == std::string::npos ? std::string::npos : b - a));
        if (b == std::string::npos) break;
        a = b + 1;
    }
    return v;
}

static void run_bfs(const std::string& fen, int depth)
{
    mc::Subspace sub;
    sub.name = "bfs " + fen;
    sub.bound = "all canonical states (placement+side+rights+ep) within " + std::to_string(depth) + " plies, oracle moves";
    ref::Pos root;
    ref::parse_fen(fen, root);
    std::unordered_set<std::string> seen;
    std::vector<ref::Pos> frontier{root}, next;
    seen.insert(ref::identity(root));
    bool complete = true;
    for (int d = 0; d <= depth && complete; ++d)
    {
        next.clear();
        for (auto& p : frontier)
        {
            if (R.out_of_time())
            {
                complete = false;
                break;
            }
            visit_state(p, false);
            sub.states++;
            if (sub.states == 1) R.sample(wit(p).s("space", sub.name).str());
            if (d == depth) continue;
            std::vector<ref::Mv> legal;
            ref::gen_legal(p, legal);
            ref::Pos t;
            for (auto& m : legal)
            {
                ref::make(p, m, t);
                sub.transitions++;
                if (seen.insert(ref::identity(t)).second) next.push_back(t);
            }
        }
        frontier.swap(next);
    }
    sub.exhaustive = complete;
    R.subspaces.push_back(sub);
}

static void run_sig(const std::string& spec)
{
    spaces::SigSpec sp;
    if (!spaces::parse_sig(spec, sp))
    {
        fprintf(stderr, "bad signature spec %s\n", spec.c_str());
        exit(2);
    }
    mc::Subspace sub;
    sub.name = "sig " + spec;
    sub.bound = "every retro-legal placement of the signature (both sides to move, consistent rights subsets, ep squares)";
    bool c04 = PROP == "C04";
    std::string last_placement;
    bool done = spaces::enumerate_sig(sp, [&](const ref::Pos& p) {
        if (c04)
        {
            // full maps would not fit for large signatures; use the neighbour-variant check
            if (memcmp(last_placement.data(), p.b, last_placement.size() == 64 ? 64 : 0) != 0 || last_placement.size() != 64)
            {
                last_placement.assign(p.b, 64);
                ref::Pos g = p;
                g.stm = 0;
                g.ep = -1;
                g.cr = 0;
                if (g.b[4] == 'K' && g.b[7] == 'R') g.cr |= ref::CR_WK;
                if (g.b[4] == 'K' && g.b[0] == 'R') g.cr |= ref::CR_WQ;
                if (g.b[60] == 'k' && g.b[63] == 'r') g.cr |= ref::CR_BK;
                if (g.b[60] == 'k' && g.b[56] == 'r') g.cr |= ref::CR_BQ;
                c04_variants(g);
            }
        }
        visit_state(p, true);
        sub.states++;
        if (sub.states == 1) R.sample(wit(p).s("space", sub.name).str());
        return (sub.states & 1023) || !R.out_of_time();
    });
    sub.transitions = R.counters["edges"];
    sub.exhaustive = done;
    R.subspaces.push_back(sub);
}

// generic walk with real make/unmake on ONE engine object: the state checks of the selected
// property are applied to positions *reached by play* (stale state left by do_move/undo_move shows)
static void prop_tree(Position& e, const ref::Pos& p, int depth)
{
    ++g_tree_nodes;
    std::vector<ref::Mv> legal;
    ref::gen_legal(p, legal);
    if (PROP == "C01") c01_state(e, p, legal);
    else if (PROP == "C02") c02_state(e, p, legal);
    else if (PROP == "C04") c04_state(e, p, legal);
    else if (PROP == "C07") c07_state(e, p, legal);
    else if (PROP == "C15") c15_state(e, p, legal);
    else if (PROP == "C17") c17_state(e, p, legal);
    else if (PROP == "C18") c18_state(e, p);
    if (depth == 0 || R.out_of_time()) return;
    ref::Pos t;
    for (auto& m : legal)
    {
        ref::make(p, m, t);
        Move em = to_engine(m);
        MoveInfo mi = e.do_move(em);
        g_tree_line.push_back(ref::uci(m));
        prop_tree(e, t, depth - 1);
        g_tree_line.pop_back();
        e.undo_move(em, mi);
        R.count("tree_edges");
    }
}

static void run_tree(const std::string& fen, int depth)
{
    mc::Subspace sub;
    sub.name = "tree " + fen;
    sub.bound = "complete make/unmake tree to depth " + std::to_string(depth) + " on one engine object (null moves included for C03)";
    ref::Pos root;
    ref::parse_fen(fen, root);
    Position e(ref::fen(root));
    g_tree_nodes = 0;
    g_in_tree = true;
    g_tree_root = ref::fen(root);
    g_tree_line.clear();
    uint64_t e0 = R.counters["edges"];
    if (PROP == "C03")
        c03_tree(e, root, depth, false);
    else if (PROP == "C16")
        c16_tree(e, root, depth);
    else
        prop_tree(e, root, depth);
    g_in_tree = false;
    sub.states = g_tree_nodes;
    sub.transitions = R.counters["edges"] - e0 + (PROP == "C16" ? g_tree_nodes : 0) + R.counters["tree_edges"];
    sub.exhaustive = !R.out_of_time();
    R.sample(wit(root).s("space", sub.name).str());
    R.subspaces.push_back(sub);
}

static void run_games(const std::string& fen, int depth)
{
    mc::Subspace sub;
    sub.name = "games " + fen;
    sub.bound = "every move sequence up to " + std::to_string(depth) + " plies, history predicates on every prefix";
    ref::Pos root;
    ref::parse_fen(fen, root);
    Position e(ref::fen(root));
    std::vector<std::string> hist, line;
    g_root_fen = ref::fen(root);
    g_games_nodes = 0;
    uint64_t e0 = R.counters["edges"];
    c07_games(e, root, hist, line, depth);
    sub.states = g_games_nodes;
    sub.transitions = R.counters["edges"] - e0;
    sub.exhaustive = !R.out_of_time();
    R.sample(wit(root).s("space", sub.name).n("prefixes", (long long)g_games_nodes).str());
    R.subspaces.push_back(sub);
}

// replay helper: play a given move list from fen; history predicates for C07 along the line,
// state checks of the selected property at the end
static void run_line(const std::string& fen, const std::string& moves)
{
    mc::Subspace sub;
    sub.name = "line " + fen + " moves " + moves;
    sub.bound = "one given line";
    ref::Pos p;
    ref::parse_fen(fen, p);
    Position e(ref::fen(p));
    std::vector<std::string> hist, line;
    g_root_fen = ref::fen(p);
    std::istringstream is(moves);
    std::string tok;
    if (PROP == "C07") c07_games(e, p, hist, line, 0);
    while (is >> tok)
    {
        std::vector<ref::Mv> legal;
        ref::gen_legal(p, legal);
        const ref::Mv* mv = nullptr;
        for (auto& m : legal)
            if (ref::uci(m) == tok) mv = &m;
        if (!mv)
        {
            fprintf(stderr, "illegal move %s in line\n", tok.c_str());
            exit(2);
        }
        hist.push_back(ref::identity(p));
        ref::Pos t;
        ref::make(p, *mv, t);
        e.do_move(e.parse_uci(tok));
        line.push_back(tok);
        p = t;
        sub.states++;
        sub.transitions++;
        if (PROP == "C07") c07_games(e, p, hist, line, 0);
    }
    if (PROP != "C07") visit_state(p, false);
    sub.exhaustive = true;
    R.subspaces.push_back(sub);
}

// replay of a tree-mode witness: play the moves with real do_move on one object, then apply the
// selected property's state check (for C03: the nested tree of depth 1 below it)
static void run_treeline(const std::string& fen, const std::string& moves, int depth)
{
    mc::Subspace sub;
    sub.name = "treeline " + fen + " moves " + moves;
    sub.bound = "one given line, engine object reached by play";
    ref::Pos p;
    ref::parse_fen(fen, p);
    Position e(ref::fen(p));
    g_in_tree = true;
    g_tree_root = ref::fen(p);
    g_tree_line.clear();
    std::istringstream is(moves);
    std::string tok;
    while (is >> tok)
    {
        std::vector<ref::Mv> legal;
        ref::gen_legal(p, legal);
        const ref::Mv* mv = nullptr;
        for (auto& m : legal)
            if (ref::uci(m) == tok) mv = &m;
        if (!mv) exit(2);
        ref::Pos t;
        ref::make(p, *mv, t);
        e.do_move(to_engine(*mv));
        g_tree_line.push_back(tok);
        p = t;
        sub.transitions++;
    }
    if (PROP == "C03") c03_tree(e, p, depth, false);
    else if (PROP == "C16") c16_tree(e, p, 0);
    else prop_tree(e, p, 0);
    g_in_tree = false;
    sub.states = 1;
    sub.exhaustive = true;
    R.subspaces.push_back(sub);
}

static int validate_seeds(const std::string& path)
{
    FILE* f = fopen(path.c_str(), "r");
    if (!f) return 2;
    char buf[512];
    int bad = 0, n = 0;
    while (fgets(buf, sizeof buf, f))
    {
        std::string l(buf);
        if (l.empty() || l[0] == '#' || l[0] == '\n') continue;
        size_t t = l.find('\t');
        if (t == std::string::npos) continue;
        std::string fen = l.substr(t + 1);
        while (!fen.empty() && (fen.back() == '\n' || fen.back() == ' ')) fen.pop_back();
        ref::Pos p;
        if (!ref::parse_fen(fen, p) || !ref::retro_ok(p) || ref::fen(p) != fen)
        {
            fprintf(stderr, "seed not retro-legal or not canonical: %s -> %s\n", fen.c_str(), ref::fen(p).c_str());
            ++bad;
        }
        ++n;
    }
    fclose(f);
    printf("%d seeds validated, %d bad\n", n, bad);
    return bad ? 2 : 0;
}

// prints a long legal game from the start position (no capture, no threefold repetition, half-move
// clock kept below 100 by quiet pawn steps): used by the C10 session enumerator as "spine"
static std::string spine_moves(int plies)
{
    ref::Pos p;
    ref::parse_fen("rnbqkbnr/pppppppp/8/8/8/8/PPPPPPPP/RNBQKBNR w KQkq - 0 1", p);
    std::map<std::string, int> seen;
    seen[ref::identity(p)] = 1;
    std::string line;
    for (int ply = 0; ply < plies; ++ply)
    {
        std::vector<ref::Mv> legal;
        ref::gen_legal(p, legal);
        const ref::Mv* pick = nullptr;
        ref::Pos t, best;
        // reversible moves first (rotating start so that many different pieces wander), fresh positions only
        int n = int(legal.size());
        bool need_pawn = p.hmc >= 90;
        for (int pass = 0; pass < 2 && !pick; ++pass)
            for (int i = 0; i < n && !pick; ++i)
            {
                const ref::Mv& m = legal[size_t((i + ply * 7) % n)];
                if (m.flags & (ref::F_CAPTURE | ref::F_CASTLE_K | ref::F_CASTLE_Q | ref::F_EP)) continue;
                if (m.promo) continue;
                bool pawn = ref::lower(p.b[m.from]) == 'p';
                if (pawn && (m.flags & ref::F_DOUBLE)) continue;   // single steps only: more resets available
                if ((pass == 0) != (need_pawn ? pawn : !pawn)) continue;
                ref::make(p, m, t);
                if (ref::in_check(t, t.stm)) continue;
                if (seen[ref::identity(t)] >= 1) continue;
                // do not walk a pawn into a capture-only future: keep pawns off ranks where they block each other
                if (pawn)
                {
                    int r = ref::rankof(m.to);
                    if (p.stm == ref::WHITE ? r > 3 : r < 4) continue;
                }
                // never leave a piece where the opponent could only move by capturing: harmless, captures are never chosen
                pick = &m;
                best = t;
            }
        if (!pick)
        {
            fprintf(stderr, "spine stuck at ply %d (hmc %d)\n", ply, p.hmc);
            exit(2);
        }
        line += (line.empty() ? "" : " ") + ref::uci(*pick);
        p = best;
        seen[ref::identity(p)]++;
    }
    return line;
}

static int print_spine(int plies)
{
    printf("%s\n", spine_moves(plies).c_str());
    return 0;
}

static std::string spine_moves(int plies);

// a long legal game (spine) of `plies` plies, then every game of the (optionally square-filtered)
// tree below it to `depth`: repetition / 50-move answers with a history longer than MAX_PLIES
static void run_longgames(int plies, int depth, const std::string& squares)
{
    mc::Subspace sub;
    sub.name = "longgames spine=" + std::to_string(plies) + " depth=" + std::to_string(depth) + " squares=" + squares;
    sub.bound = "spine of " + std::to_string(plies) + " plies from the start position, then every move sequence up to " + std::to_string(depth) +
                " plies" + (squares.empty() ? "" : " restricted to moves between the squares " + squares) + "; history predicates on every prefix";
    g_sq_filter = 0;
    for (size_t i = 0; i + 1 < squares.size(); i += 2) g_sq_filter |= 1ULL << ((squares[i] - 'a') + 8 * (squares[i + 1] - '1'));
    ref::Pos p;
    ref::parse_fen("rnbqkbnr/pppppppp/8/8/8/8/PPPPPPPP/RNBQKBNR w KQkq - 0 1", p);
    g_root_fen = ref::fen(p);
    Position e(ref::fen(p));
    std::vector<std::string> hist, line;
    std::istringstream is(spine_moves(plies));
    std::string tok;
    while (is >> tok)
    {
        std::vector<ref::Mv> legal;
        ref::gen_legal(p, legal);
        const ref::Mv* mv = nullptr;
        for (auto& m : legal)
            if (ref::uci(m) == tok) mv = &m;
        if (!mv) exit(2);
        hist.push_back(ref::identity(p));
        ref::Pos t;
        ref::make(p, *mv, t);
        e.do_move(e.parse_uci(tok));
        line.push_back(tok);
        p = t;
    }
    if (squares == "auto")
    {
        // one knight per side with (up to) two empty target squares: shuffles deep enough for repetition
        g_sq_filter = 0;
        for (int side = 0; side < 2; ++side)
        {
            char kn = ref::mk(side, 'n');
            for (int sq = 0; sq < 64; ++sq)
            {
                if (p.b[sq] != kn) continue;
                int found = 0;
                uint64_t set = 1ULL << sq;
                for (int i = 0; i < 8 && found < 2; ++i)
                {
                    int f = ref::fileof(sq) + ref::KN_DF[i], r = ref::rankof(sq) + ref::KN_DR[i];
                    if (f < 0 || f > 7 || r < 0 || r > 7 || p.b[r * 8 + f] != '.') continue;
                    set |= 1ULL << (r * 8 + f);
                    ++found;
                }
                if (found == 2)
                {
                    g_sq_filter |= set;
                    break;
                }
            }
        }
    }
    g_games_nodes = 0;
    uint64_t e0 = R.counters["edges"];
    c07_games(e, p, hist, line, depth);
    sub.states = g_games_nodes;
    sub.transitions = R.counters["edges"] - e0 + uint64_t(plies);
    sub.exhaustive = !R.out_of_time();
    R.count("long_history_prefixes", g_games_nodes);
    R.sample(mc::JObj().s("space", sub.name).n("prefixes", (long long)g_games_nodes).str());
    g_sq_filter = 0;
    R.subspaces.push_back(sub);
}

static void run_lattice(const std::string& fen)
{
    mc::Subspace sub;
    sub.name = "lattice " + fen;
    sub.bound = "half-move clock in {0,1,49,50,98,99,100,149} x full-move in {1,2,99} x every legal move";
    ref::Pos root;
    ref::parse_fen(fen, root);
    for (int h : HMC_LATTICE)
        for (int f : FMN_LATTICE)
        {
            ref::Pos p = root;
            p.hmc = h;
            p.fmn = f;
            visit_state(p, false);
            sub.states++;
        }
    sub.transitions = R.counters["edges"];
    sub.exhaustive = true;
    R.subspaces.push_back(sub);
}

static int selftest()
{
    struct T
    {
        const char* fen;
        int d;
        uint64_t n;
    } tests[] = {
        {"rnbqkbnr/pppppppp/8/8/8/8/PPPPPPPP/RNBQKBNR w KQkq - 0 1", 4, 197281},
        {"r3k2r/p1ppqpb1/bn2pnp1/3PN3/1p2P3/2N2Q1p/PPPBBPPP/R3K2R w KQkq - 0 1", 3, 97862},
        {"8/2p5/3p4/KP5r/1R3p1k/8/4P1P1/8 w - - 0 1", 5, 674624},
        {"r3k2r/Pppp1ppp/1b3nbN/nP6/BBP1P3/q4N2/Pp1P2PP/R2Q1RK1 w kq - 0 1", 4, 422333},
        {"rnbq1k1r/pp1Pbppp/2p5/8/2B5/8/PPP1NnPP/RNBQK2R w KQ - 1 8", 3, 62379},
        {"r4rk1/1pp1qppp/p1np1n2/2b1p1B1/2B1P1b1/P1NP1N2/1PP1QPPP/R4RK1 w - - 0 10", 3, 89890},
    };
    int bad = 0;
    for (auto& t : tests)
    {
        ref::Pos p;
        ref::parse_fen(t.fen, p);
        uint64_t n = ref::perft(p, t.d);
        if (n != t.n)
        {
            fprintf(stderr, "refchess perft mismatch %s d%d: %llu != %llu\n", t.fen, t.d, (unsigned long long)n, (unsigned long long)t.n);
            ++bad;
        }
    }
    // mate solver sanity
    ref::Pos p;
    ref::parse_fen("6k1/5ppp/8/8/8/8/8/R3K3 w - - 0 1", p);
    if (!ref::can_mate_in(p, 1)) ++bad;
    ref::parse_fen("8/8/8/8/8/5K2/6Q1/7k b - - 0 1", p);  // not mate, black has moves? (h1 attacked) -> stalemate-ish
    ref::parse_fen("7k/8/5K2/6Q1/8/8/8/8 w - - 0 1", p);
    if (!ref::can_mate_in(p, 1)) ++bad;  // Qg7#
    ref::parse_fen("8/8/8/8/8/8/8/Kk6 w - - 0 1", p);
    if (ref::retro_ok(p)) ++bad;
    ref::parse_fen("8/8/8/8/8/8/8/K1k5 w - - 0 1", p);
    if (!ref::retro_ok(p)) ++bad;
    printf(bad ? "SELFTEST FAILED\n" : "selftest ok\n");
    return bad ? 2 : 0;
}

int main(int argc, char** argv)
{
    std::vector<std::string> spacesv;
    std::string out, golden;
    for (int i = 1; i < argc; ++i)
    {
        std::string a = argv[i];
        if (a == "--prop")
            PROP = argv[++i];
        else if (a == "--space")
            spacesv.push_back(argv[++i]);
        else if (a == "--out")
            out = argv[++i];
        else if (a == "--deadline")
            R.deadline_s = atof(argv[++i]);
        else if (a == "--golden")
            golden = argv[++i];
        else if (a == "--keep")
            R.keep_per_class = atoi(argv[++i]);
    }
    move_bitboards::init();
    zobrist::init();
    bitbase::init();
    endgame::init();
    PositionScorer scorer;
    g_scorer = &scorer;
    if (PROP == "C18" && !load_random64(golden))
    {
        fprintf(stderr, "cannot load golden Random64 table %s\n", golden.c_str());
        return 2;
    }
    for (auto& s : spacesv)
    {
        if (s == "selftest") return selftest();
        auto parts = split(s, '|');
        if (parts[0] == "bfs")
            run_bfs(parts[1], atoi(parts[2].c_str()));
        else if (parts[0] == "sig")
            run_sig(parts[1]);
        else if (parts[0] == "tree")
            run_tree(parts[1], atoi(parts[2].c_str()));
        else if (parts[0] == "games")
            run_games(parts[1], atoi(parts[2].c_str()));
        else if (parts[0] == "lattice")
            run_lattice(parts[1]);
        else if (parts[0] == "treeline")
            run_treeline(parts[1], parts.size() > 2 ? parts[2] : "", parts.size() > 3 ? atoi(parts[3].c_str()) : 1);
        else if (parts[0] == "line")
            run_line(parts[1], parts.size() > 2 ? parts[2] : "");
        else if (parts[0] == "longgames")
            run_longgames(atoi(parts[1].c_str()), atoi(parts[2].c_str()), parts.size() > 3 ? parts[3] : "");
        else if (parts[0] == "spine")
            return print_spine(atoi(parts[1].c_str()));
        else if (parts[0] == "validate")
            return validate_seeds(parts[1]);
        else if (parts[0] == "encoding")
            c16_encoding();
        else if (parts[0] == "vectors")
            c18_vectors();
        else
        {
            fprintf(stderr, "unknown space %s\n", s.c_str());
            return 2;
        }
    }
    if (PROP == "C04") c04_finish();
    if (!out.empty() && !R.write(out)) return 2;
    return 0;
}
