// State-space generators shared by the explorers (S2: small-scope placements).
#ifndef VERIF_SPACES_H
#define VERIF_SPACES_H

#include "refchess.h"
#include <functional>
#include <string>
#include <vector>

namespace spaces
{
struct SigSpec
{
    std::vector<char> pieces;  // piece letters
    std::vector<int> fixed;    // fixed square or -1
    int files = 8;             // board restricted to files a..(files-1)
    int ep_mode = 0;           // 0: '-' and every consistent ep square; 1: only with ep; 2: never ep;
                               // 3: only with an ep square that a pawn of the side to move attacks
    int rights_mode = 0;       // 0: every consistent subset; 1: none only; 2: maximal only
    int stm_mode = 2;          // 0 white only, 1 black only, 2 both
    int shard = 0, nshards = 1;
};

// syntax: <pieces>[;files=N][;ep=only|none|all][;rights=none|max|all][;stm=w|b][;shard=i/n]
// pieces: letters, each optionally followed by a fixed square: Ke1Ra1kq
inline bool parse_sig(const std::string& s, SigSpec& o)
{
    size_t i = 0;
    std::string head = s.substr(0, s.find(';'));
    while (i < head.size())
    {
        char c = head[i++];
        if (!strchr("KQRBNPkqrbnp", c)) return false;
        int fx = -1;
        if (i + 1 < head.size() && head[i] >= 'a' && head[i] <= 'h' && head[i + 1] >= '1' && head[i + 1] <= '8')
        {
            // a following letter a-h + digit is a square (a piece letter is never followed by a digit)
            fx = (head[i] - 'a') + 8 * (head[i + 1] - '1');
            i += 2;
        }
        o.pieces.push_back(c);
        o.fixed.push_back(fx);
    }
    size_t p = s.find(';');
    while (p != std::string::npos)
    {
        size_t q = s.find(';', p + 1);
        std::string kv = s.substr(p + 1, q == std::string::npos ? std::string::npos : q - p - 1);
        size_t e = kv.find('=');
        std::string k = kv.substr(0, e), v = e == std::string::npos ? "" : kv.substr(e + 1);
        if (k == "files")
            o.files = atoi(v.c_str());
        else if (k == "ep")
            o.ep_mode = v == "only" ? 1 : v == "none" ? 2 : v == "cap" ? 3 : 0;
        else if (k == "rights")
            o.rights_mode = v == "none" ? 1 : v == "max" ? 2 : 0;
        else if (k == "stm")
            o.stm_mode = v == "w" ? 0 : v == "b" ? 1 : 2;
        else if (k == "shard")
        {
            o.shard = atoi(v.c_str());
            o.nshards = atoi(v.substr(v.find('/') + 1).c_str());
        }
        else
            return false;
        p = q;
    }
    return !o.pieces.empty();
}

// calls cb(pos) for every retro-legal position of the signature; returns false if cb asked to stop
inline bool enumerate_sig(const SigSpec& sp, const std::function<bool(const ref::Pos&)>& cb)
{
    int n = int(sp.pieces.size());
    std::vector<int> sq(n, -1);
    ref::Pos p;
    std::memset(p.b, '.', 64);
    p.hmc = 0;
    p.fmn = 1;
    bool go_on = true;

    std::function<void(int)> rec = [&](int i) {
        if (!go_on) return;
        if (i == n)
        {
            // rights consistent with the placement
            int maxcr = 0;
            if (p.b[4] == 'K' && p.b[7] == 'R') maxcr |= ref::CR_WK;
            if (p.b[4] == 'K' && p.b[0] == 'R') maxcr |= ref::CR_WQ;
            if (p.b[60] == 'k' && p.b[63] == 'r') maxcr |= ref::CR_BK;
            if (p.b[60] == 'k' && p.b[56] == 'r') maxcr |= ref::CR_BQ;
            for (int stm = 0; stm < 2 && go_on; ++stm)
            {
                if (sp.stm_mode != 2 && sp.stm_mode != stm) continue;
                p.stm = stm;
                for (int cr = 0; cr < 16 && go_on; ++cr)
                {
                    if (cr & ~maxcr) continue;
                    if (sp.rights_mode == 1 && cr != 0) continue;
                    if (sp.rights_mode == 2 && cr != maxcr) continue;
                    p.cr = cr;
                    if (sp.ep_mode != 1 && sp.ep_mode != 3)
                    {
                        p.ep = -1;
                        if (ref::retro_ok(p)) go_on = cb(p);
                    }
                    if (sp.ep_mode != 2)
                    {
                        // candidate ep squares: behind a pawn of the side that just moved
                        int mover = 1 - stm;
                        int prank = mover == ref::WHITE ? 3 : 4;
                        for (int f = 0; f < 8 && go_on; ++f)
                        {
                            int ps = prank * 8 + f;
                            if (p.b[ps] != ref::mk(mover, 'p')) continue;
                            if (sp.ep_mode == 3)
                            {
                                char mine = ref::mk(stm, 'p');
                                bool adj = (f > 0 && p.b[ps - 1] == mine) || (f < 7 && p.b[ps + 1] == mine);
                                if (!adj) continue;
                            }
                            p.ep = mover == ref::WHITE ? ps - 8 : ps + 8;
                            if (ref::retro_ok(p)) go_on = cb(p);
                        }
                        p.ep = -1;
                    }
                }
            }
            return;
        }
        char c = sp.pieces[i];
        bool pawn = c == 'P' || c == 'p';
        int lo = 0;
        // identical free pieces are placed on increasing squares
        if (sp.fixed[i] < 0)
            for (int j = i - 1; j >= 0; --j)
                if (sp.pieces[j] == c && sp.fixed[j] < 0)
                {
                    lo = sq[j] + 1;
                    break;
                }
        if (sp.fixed[i] >= 0)
        {
            int s = sp.fixed[i];
            if (p.b[s] != '.') return;
            p.b[s] = c;
            sq[i] = s;
            rec(i + 1);
            p.b[s] = '.';
            return;
        }
        bool first_free = true;
        for (int j = 0; j < i; ++j)
            if (sp.fixed[j] < 0) first_free = false;
        for (int s = lo; s < 64 && go_on; ++s)
        {
            if (p.b[s] != '.') continue;
            if (ref::fileof(s) >= sp.files) continue;
            if (pawn && (ref::rankof(s) == 0 || ref::rankof(s) == 7)) continue;
            if (first_free && sp.nshards > 1 && (s % sp.nshards) != sp.shard) continue;
            p.b[s] = c;
            sq[i] = s;
            rec(i + 1);
            p.b[s] = '.';
        }
    };
    rec(0);
    return go_on;
}

}  // namespace spaces

#endif
