// In-process UCI sessions on the real Uci::loop, one forked child per session.
// Owns: wall clock (interposed steady_clock::now), zobrist randomness (seeded overwrite),
// search-thread completion (THREAD_END hook), stop injection at an exact node visit.
#ifndef VERIF_UCI_SESSION_H
#define VERIF_UCI_SESSION_H

#include "refchess.h"

#include "endgame.h"
#include "movegen.h"
#include "position.h"
#include "search.h"
#include "transposition_table.h"
#include "uci.h"
#include "verif_hooks.h"
#include "zobrist_hash.h"

#include <atomic>
#include <chrono>
#include <condition_variable>
#include <cstring>
#include <functional>
#include <mutex>
#include <random>
#include <sstream>
#include <string>
#include <sys/mman.h>
#include <sys/wait.h>
#include <unistd.h>
#include <vector>

#ifndef CHESSPLUSPLUS_VERIF
#error "searchmc needs the hooked build (-DCHESSPLUSPLUS_VERIF)"
#endif

namespace engine
{
extern uint64_t PIECE_HASH[PIECE_NUM][SQUARE_NUM];
extern uint64_t CASTLING_HASH[1 << 4];
extern uint64_t SIDE_HASH;
extern uint64_t ENPASSANT_HASH[FILE_NUM];
}  // namespace engine

// ------------------------------------------------------------------ virtual clock
namespace vclock
{
inline std::atomic<long long> now_ns{1000000000LL};
inline std::atomic<long long> step_ns{0};  // advance per read
inline std::atomic<long long> reads{0};
inline std::atomic<bool> real{false};
}  // namespace vclock

namespace std
{
namespace chrono
{
inline namespace _V2
{
steady_clock::time_point steady_clock::now() noexcept
{
    if (vclock::real.load())
    {
        timespec ts;
        clock_gettime(CLOCK_MONOTONIC, &ts);
        return time_point(duration(ts.tv_sec * 1000000000LL + ts.tv_nsec));
    }
    vclock::reads++;
    long long v = vclock::now_ns.fetch_add(vclock::step_ns.load()) + vclock::step_ns.load();
    return time_point(duration(v));
}
}  // namespace _V2
}  // namespace chrono
}  // namespace std

namespace sess
{
using namespace engine;

inline void seed_zobrist(uint64_t seed)
{
    std::mt19937_64 g(seed * 0x9E3779B97F4A7C15ULL + 12345);
    for (auto& row : PIECE_HASH)
        for (auto& v : row) v = g();
    for (auto& v : CASTLING_HASH) v = g();
    SIDE_HASH = g();
    for (auto& v : ENPASSANT_HASH) v = g();
}

struct Poison
{
    bool active = false;
    uint64_t key = 0;
    int64_t score = 0;
    int32_t depth = 0;
    int flag = 0;
    Move move = 0;
    int at_line = -1;    // index of the script line before which the entry is inserted (before the last
                         // `position` = older epoch, before the last `go` = current epoch)
};

struct Spec
{
    std::vector<std::string> lines;   // UCI script; each `go` is waited for before the next line
    long long stop_at = -1;           // call Search::stop() at this node visit (0-based) of the LAST go
    long long stop_at_first = -1;     // same for the FIRST go of the script (session-history runs)
    long long clock_step_ms = 0;      // virtual clock advance per read (0 = frozen)
    long long horizon = 3000000;      // node-visit horizon per search
    Poison poison;
    bool record_keys = false;         // dry run: record (key, fen) probed at ply <= 2 in the last go
    bool overlap = false;             // fast GUI: the 2nd `go` is processed as soon as the 1st bestmove line is out, while the
                                      // first search thread is still inside its last statements; later lines wait for its end
};

struct Outcome
{
    std::string output;               // everything the engine printed
    std::vector<long long> visits;    // node visits per go
    std::vector<long long> think_ms;  // virtual milliseconds between `go` and the end of its search thread
    bool horizon_hit = false;
    int exit_status = 0;              // child status (signal / sanitizer abort)
    bool crashed = false;
    std::string stderr_tail;
    std::vector<std::pair<uint64_t, std::string>> keys;
};

// ---- state of the child process
struct ChildState
{
    const Spec* spec = nullptr;
    std::mutex m;
    std::condition_variable cv;
    bool searching = false;
    int active = 0, spawned = 0, ended = 0;
    bool first_best_out = false;
    int go_index = -1, n_go = 0, line_index = -1;
    long long visits = 0;
    std::vector<long long> all_visits, all_think;
    long long t_go = 0;
    bool horizon_hit = false;
    Uci* uci = nullptr;
    std::vector<std::pair<uint64_t, std::string>> keys;
};
inline ChildState* CS = nullptr;
inline thread_local bool t_printing_bestmove = false;

inline void do_poison(const Poison& p);

inline void hook(int point, void* search, const void* a, const void* b)
{
    ChildState& c = *CS;
    switch (point)
    {
    case verif::UCI_LINE:
    {
        std::string line = static_cast<const char*>(a);
        bool is_stop = line.rfind("stop", 0) == 0 || line.rfind("isready", 0) == 0;
        bool is_go_line = line.rfind("go", 0) == 0;
        if (c.spec->overlap && is_go_line && c.go_index == 0)
        {
            // second go of an overlapping session: as soon as the first bestmove line is complete
            std::unique_lock<std::mutex> lk(c.m);
            c.cv.wait(lk, [&] { return c.first_best_out || c.ended >= 1; });
        }
        else if (c.spec->overlap && c.go_index >= 1)
        {
            // everything after the second go waits until the first search thread has really ended
            std::unique_lock<std::mutex> lk(c.m);
            c.cv.wait(lk, [&] { return c.ended >= 1; });
            if (!is_stop) c.cv.wait(lk, [&] { return c.active == 0; });
        }
        else if (!is_stop)
        {
            std::unique_lock<std::mutex> lk(c.m);
            c.cv.wait(lk, [&] { return !c.searching; });
        }
        c.line_index++;
        if (c.spec->poison.active && c.line_index == c.spec->poison.at_line) do_poison(c.spec->poison);
        if (line.rfind("go", 0) == 0)
        {
            std::unique_lock<std::mutex> lk(c.m);
            c.searching = true;
            c.active++;
            c.go_index++;
            c.visits = 0;
            c.t_go = vclock::now_ns.load();
        }
        break;
    }
    case verif::NODE:
    case verif::QNODE:
    {
        long long v = c.visits++;
        long long target = -1;
        if (c.go_index == c.n_go - 1) target = c.spec->stop_at;
        else if (c.go_index == 0) target = c.spec->stop_at_first;
        if (target >= 0 && v == target) static_cast<Search*>(search)->stop();
        if (v >= c.spec->horizon)
        {
            c.horizon_hit = true;
            static_cast<Search*>(search)->stop();
        }
        if (c.spec->record_keys && c.go_index == c.n_go - 1 && point == verif::NODE)
        {
            const Info* info = static_cast<const Info*>(a);
            int ply = (info - 1)->_ply + 1;
            if (ply <= 2)
            {
                const Position* pos = static_cast<const Position*>(b);
                c.keys.push_back({pos->hash(), pos->fen()});
            }
        }
        break;
    }
    case verif::UCI_GO_SPAWNED:
    {
        std::unique_lock<std::mutex> lk(c.m);
        c.spawned++;
        c.cv.notify_all();
        break;
    }
    case verif::GO_BESTMOVE:
        t_printing_bestmove = true;
        break;
    case verif::IO_UNLOCKING:
    {
        if (!t_printing_bestmove) break;
        t_printing_bestmove = false;
        if (c.spec->overlap && !c.first_best_out)
        {
            // the first bestmove line is complete: let the reader thread handle the next `go` now, and hold
            // this (first) search thread before its last statements until the new search thread exists
            std::unique_lock<std::mutex> lk(c.m);
            c.first_best_out = true;
            c.cv.notify_all();
            if (c.n_go >= 2) c.cv.wait(lk, [&] { return c.spawned >= 2; });
        }
        break;
    }
    case verif::THREAD_START:
    case verif::GO_ENTER:
    case verif::GO_INIT_DONE:
    {
        // stop_at == -2 / -3 / -4: the stop is delivered before the search thread runs go(), on entry
        // of go(), or after its initialisation - i.e. before the iterative-deepening loop is reached
        long long target = c.go_index == c.n_go - 1 ? c.spec->stop_at : (c.go_index == 0 ? c.spec->stop_at_first : -1);
        long long code = point == verif::THREAD_START ? -2 : point == verif::GO_ENTER ? -3 : -4;
        if (target == code && c.uci->search) c.uci->search->stop();
        break;
    }
    case verif::THREAD_END:
    {
        std::unique_lock<std::mutex> lk(c.m);
        c.all_visits.push_back(c.visits);
        c.all_think.push_back((vclock::now_ns.load() - c.t_go) / 1000000LL);
        c.ended++;
        c.active--;
        c.searching = c.active > 0;
        c.cv.notify_all();
        break;
    }
    default: break;
    }
}

inline void do_poison(const Poison& p)
{
    tt::TTEntry e(p.score, p.depth, static_cast<tt::Flag>(p.flag), p.move);
    CS->uci->ttable.insert(p.key, e);  // harness is compiled with -fno-access-control
}

inline void write_all(int fd, const std::string& s)
{
    size_t off = 0;
    while (off < s.size())
    {
        ssize_t n = ::write(fd, s.data() + off, s.size() - off);
        if (n <= 0) break;
        off += size_t(n);
    }
}

// Runs one session in a forked child of the calling (single-threaded) process.
inline Outcome run(Uci& uci, const Spec& spec)
{
    int pfd[2], efd[2];
    if (pipe(pfd) != 0 || pipe(efd) != 0) abort();
    pid_t pid = fork();
    if (pid == 0)
    {
        close(pfd[0]);
        close(efd[0]);
        dup2(efd[1], 2);
        alarm(120);  // a wedged child is killed and reported as such
        ChildState cs;
        CS = &cs;
        cs.spec = &spec;
        cs.uci = &uci;
        for (auto& l : spec.lines)
            if (l.rfind("go", 0) == 0) cs.n_go++;
        vclock::step_ns = spec.clock_step_ms * 1000000LL;
        std::string script;
        for (auto& l : spec.lines) script += l + "\n";
        std::istringstream in(script);
        std::stringbuf outbuf;
        std::streambuf* oldin = std::cin.rdbuf(in.rdbuf());
        std::streambuf* oldout = std::cout.rdbuf(&outbuf);
        verif::point_cb = hook;
        uci.loop();
        {
            std::unique_lock<std::mutex> lk(cs.m);
            cs.cv.wait(lk, [&] { return !cs.searching; });
        }
        verif::point_cb = nullptr;
        std::cin.rdbuf(oldin);
        std::cout.rdbuf(oldout);
        std::string res = outbuf.str();
        res += "#END\n";
        for (long long v : cs.all_visits) res += "#visits " + std::to_string(v) + "\n";
        for (long long v : cs.all_think) res += "#think " + std::to_string(v) + "\n";
        if (cs.horizon_hit) res += "#horizon\n";
        for (auto& k : cs.keys) res += "#key " + std::to_string(k.first) + " " + k.second + "\n";
        write_all(pfd[1], res);
        close(pfd[1]);
        _exit(0);
    }
    close(pfd[1]);
    close(efd[1]);
    Outcome o;
    char buf[65536];
    ssize_t n;
    std::string all;
    while ((n = read(pfd[0], buf, sizeof buf)) > 0) all.append(buf, size_t(n));
    close(pfd[0]);
    std::string err;
    while ((n = read(efd[0], buf, sizeof buf)) > 0)
        if (err.size() < 20000) err.append(buf, size_t(n));
    close(efd[0]);
    int st = 0;
    waitpid(pid, &st, 0);
    o.exit_status = st;
    o.crashed = !(WIFEXITED(st) && WEXITSTATUS(st) == 0);
    o.stderr_tail = err.size() > 1500 ? err.substr(0, 1500) : err;
    size_t e = all.find("#END\n");
    if (e == std::string::npos)
    {
        o.output = all;
        o.crashed = true;
        return o;
    }
    o.output = all.substr(0, e);
    std::istringstream meta(all.substr(e + 5));
    std::string l;
    while (std::getline(meta, l))
    {
        if (l.rfind("#visits ", 0) == 0) o.visits.push_back(atoll(l.c_str() + 8));
        else if (l.rfind("#think ", 0) == 0) o.think_ms.push_back(atoll(l.c_str() + 7));
        else if (l == "#horizon") o.horizon_hit = true;
        else if (l.rfind("#key ", 0) == 0)
        {
            size_t sp = l.find(' ', 5);
            o.keys.push_back({strtoull(l.c_str() + 5, nullptr, 10), l.substr(sp + 1)});
        }
    }
    return o;
}

// Resets a large zero-initialised table in O(touched pages): whole pages are dropped
// (MADV_DONTNEED gives zero pages back), the partial pages at both ends are cleared by hand.
inline void zero_region(void* p, size_t bytes)
{
    uintptr_t a = reinterpret_cast<uintptr_t>(p), e = a + bytes;
    uintptr_t pa = (a + 4095) & ~uintptr_t(4095), pe = e & ~uintptr_t(4095);
    if (pa >= pe)
    {
        std::memset(p, 0, bytes);
        return;
    }
    std::memset(p, 0, pa - a);
    std::memset(reinterpret_cast<void*>(pe), 0, e - pe);
    madvise(reinterpret_cast<void*>(pa), pe - pa, MADV_DONTNEED);
}

// Same session, but in the calling process: the transposition table and the evaluator's pawn
// cache are put back to their freshly-constructed (all zero) state first. No crash isolation:
// used only where the oracle is not a sanitizer.
inline Outcome run_inproc(Uci& uci, const Spec& spec)
{
    zero_region(uci.ttable.data_.data(), uci.ttable.data_.size() * sizeof(uci.ttable.data_[0]));
    zero_region(uci.scorer._pawn_hash_table.data_.data(),
                uci.scorer._pawn_hash_table.data_.size() * sizeof(uci.scorer._pawn_hash_table.data_[0]));
    ChildState cs;
    CS = &cs;
    cs.spec = &spec;
    cs.uci = &uci;
    for (auto& l : spec.lines)
        if (l.rfind("go", 0) == 0) cs.n_go++;
    vclock::step_ns = spec.clock_step_ms * 1000000LL;
    std::string script;
    for (auto& l : spec.lines) script += l + "\n";
    std::istringstream in(script);
    std::stringbuf outbuf;
    std::streambuf* oldin = std::cin.rdbuf(in.rdbuf());
    std::streambuf* oldout = std::cout.rdbuf(&outbuf);
    std::cin.clear();
    verif::point_cb = hook;
    uci.loop();
    {
        std::unique_lock<std::mutex> lk(cs.m);
        cs.cv.wait(lk, [&] { return !cs.searching; });
    }
    verif::point_cb = nullptr;
    std::cin.rdbuf(oldin);
    std::cout.rdbuf(oldout);
    Outcome o;
    o.output = outbuf.str();
    o.visits = cs.all_visits;
    o.think_ms = cs.all_think;
    o.horizon_hit = cs.horizon_hit;
    o.keys = cs.keys;
    CS = nullptr;
    return o;
}

// ---------------------------------------------------------------- output parsing
struct InfoLine
{
    int depth = 0;
    bool is_mate = false;
    long long score = 0;  // cp or mate y
    std::vector<std::string> pv;
    std::string raw;
};
struct Parsed
{
    std::vector<std::string> bestmoves;
    std::vector<InfoLine> infos;
    int readyok = 0;
};

// parses the part of the output belonging to the LAST go (after the previous bestmove)
inline Parsed parse_output(const std::string& out, bool last_only)
{
    std::vector<std::string> lines;
    std::istringstream is(out);
    std::string l;
    while (std::getline(is, l)) lines.push_back(l);
    size_t start = 0;
    if (last_only)
    {
        int seen = 0, total = 0;
        for (auto& x : lines)
            if (x.rfind("bestmove", 0) == 0) ++total;
        for (size_t i = 0; i < lines.size() && total > 1; ++i)
            if (lines[i].rfind("bestmove", 0) == 0 && ++seen == total - 1) start = i + 1;
    }
    Parsed p;
    for (size_t i = start; i < lines.size(); ++i)
    {
        const std::string& x = lines[i];
        if (x.rfind("bestmove", 0) == 0)
        {
            std::istringstream s(x);
            std::string a, b;
            s >> a >> b;
            p.bestmoves.push_back(b);
        }
        else if (x.rfind("info ", 0) == 0)
        {
            InfoLine il;
            il.raw = x;
            std::istringstream s(x);
            std::string t;
            while (s >> t)
            {
                if (t == "depth") s >> il.depth;
                else if (t == "score")
                {
                    std::string k;
                    s >> k;
                    if (k == "mate")
                    {
                        std::string v;
                        s >> v;
                        il.is_mate = true;
                        il.score = atoll(v.c_str());
                        if (v == "-0") il.score = 0;
                    }
                    else
                        s >> il.score;
                }
                else if (t == "pv")
                    while (s >> t) il.pv.push_back(t);
            }
            p.infos.push_back(il);
        }
        else if (x == "readyok")
            p.readyok++;
    }
    return p;
}

inline bool find_move(const ref::Pos& p, const std::string& uci, ref::Mv& out)
{
    std::vector<ref::Mv> ms;
    ref::gen_legal(p, ms);
    for (auto& m : ms)
        if (ref::uci(m) == uci)
        {
            out = m;
            return true;
        }
    return false;
}

inline bool pv_legal(const ref::Pos& root, const std::vector<std::string>& pv, std::string* bad = nullptr)
{
    ref::Pos p = root, t;
    for (auto& s : pv)
    {
        ref::Mv m;
        if (!find_move(p, s, m))
        {
            if (bad) *bad = s;
            return false;
        }
        ref::make(p, m, t);
        p = t;
    }
    return true;
}

}  // namespace sess

#endif
